"""C13 Delays and periodic timers fire exactly when promised, or never. DESIGN.md section 2/C13."""
from engine.runner import Scenario
from engine.symdrv import Violation
from engine import stubs, symloop

ANCHORS = ["mpf/core/delays.py", "mpf/core/clock.py", "mpf/devices/timer.py", "mpf/core/mode.py"]
FUNCTIONS = ["DelayManager.add", "DelayManager.remove", "DelayManager.add_if_doesnt_exist", "DelayManager.check",
             "DelayManager.reset", "DelayManager.clear", "DelayManager.run_now", "DelayManager._process_delay_callback",
             "ClockBase.schedule_once/schedule_interval/unschedule", "PeriodicTask.__init__/_schedule/_run/cancel/get_next_call_time",
             "Timer.start/stop/pause/add/subtract/jump/_timer_tick/_check_for_done (scenario timer)"]
EXPLANATION = ("Bounded symbolic execution (CrossHair/z3) of the real DelayManager, ClockBase and PeriodicTask on a symbolic-time "
               "asyncio loop. 'delays': operation sequences (kind concrete per partition; names, milliseconds, gaps, the action a "
               "callback performs are solver variables) against a reference discrete-event model; 'periodic': an interval task with "
               "symbolic interval, per-tick loop lateness and cancel instant; 'timer': the timer device on a booted machine with symbolic "
               "start/end values and control operations.")
NONTRIVIAL_RULE = "at least one delay/tick fired and was compared with the reference schedule"
BOUNDS = {"quick": {"delay_ops": 3, "names": 2, "ms": "[0,3000] real", "gap_s": "[0,2] real", "periodic_ticks": "<=6", "lateness": "[0, 5 ms] per tick"},
          "thorough": {"delay_ops": 4, "names": 2, "ms": "[0,3000] real", "gap_s": "[0,2] real", "periodic_ticks": "<=8", "lateness": "[0, 5 ms] per tick"}}
ASSUMPTIONS = ["two deadlines / a deadline and an operation at exactly the same instant are assumed away (the statement does not order them)",
               "loop lateness only in the periodic scenario (drift is its subject); delays run on an exact virtual clock",
               "mode stop clears the mode's DelayManager through clear(): covered as the clear operation (Mode.stop itself is C07)"]
BUDGET = {"quick": 100, "thorough": 600}
NAMES = ["a", "b"]
KINDS = ["add", "remove", "reset", "add_if", "clear", "run_now"]


def setup(part):
    stubs.shims()
    return symloop.new_loop()


def teardown(loop):
    try:
        loop._ready.clear()
        loop._scheduled.clear()
        loop.close()
    except Exception:  # pylint: disable=broad-except
        pass


class Tie(Exception):
    pass


def body_delays(S, loop, part):
    from mpf.core.events import EventManager
    from mpf.core.delays import DelayManager
    S.now_symbolic(loop)
    m = stubs.StubMachine(loop)
    m.events = EventManager(m)
    dm = DelayManager(m)
    fired = []                # (name, tok, time)
    model = {}                # name -> dict(due, tok, act, ms2)
    exp = []
    # what the callback of the FIRST add does: 0 nothing, 1 re-add self, 2 remove other, 3 clear,
    # 4 check(own name), 5 add_if_doesnt_exist(own name), 6 run_now(own name) -- from inside the firing delay's own callback
    act0 = part["cb_action"] if "cb_action" in part else S.choice("cb_action", 7)
    inside = []
    ms2 = S.real("ms_readd", 1, 3000)
    readd_done = [False]

    def mk_cb(name, idx):
        def cb(**kwargs):
            fired.append((name, kwargs.get("tok"), loop.time()))
            if idx == 0 and not readd_done[0]:
                if act0 == 1:
                    readd_done[0] = True
                    dm.add(ms2, mk_cb(name, 99), name, tok=99)
                elif act0 == 2:
                    dm.remove(NAMES[1 - NAMES.index(name)])
                elif act0 == 3:
                    dm.clear()
                elif act0 == 4:
                    inside.append(("check", bool(dm.check(name))))
                elif act0 == 5:
                    readd_done[0] = True
                    dm.add_if_doesnt_exist(ms2, mk_cb(name, 99), name, tok=99)
                elif act0 == 6:
                    readd_done[0] = True
                    n0 = len(fired)
                    dm.run_now(name)
                    inside.append(("run_now", len(fired) - n0))
        return cb

    def model_fire(name, at):
        ent = model.pop(name)
        exp.append((name, ent["tok"], at))
        if ent["idx"] == 0 and not ent.get("spent"):
            if act0 in (1, 5) and not model_readd[0]:
                model_readd[0] = True
                model[name] = dict(due=at + ms2 / 1000.0, tok=99, idx=99)
            elif act0 == 2:
                model.pop(NAMES[1 - NAMES.index(name)], None)
            elif act0 == 3:
                model.clear()
    model_readd = [False]

    def advance_model(target):
        """fire everything due strictly before target, in time order"""
        while True:
            due = [(n, e["due"]) for n, e in model.items()]
            cand = None
            for n, d in due:
                if d == target:
                    raise Tie()
                if d < target:
                    if cand is not None and d == cand[1]:
                        raise Tie()
                    if cand is None or d < cand[1]:
                        cand = (n, d)
            if cand is None:
                return
            model_fire(cand[0], cand[1])

    kinds = part["kinds"]
    try:
        for i, kind in enumerate(kinds):
            name = NAMES[part["names"][i]] if "names" in part else NAMES[S.choice("name%d" % i, 2)]
            now = loop.time()
            advance_model(now)
            cb = mk_cb(name, i)
            if kind == "add":
                ms = S.real("ms%d" % i, 0, 3000)
                dm.add(ms, cb, name, tok=i)
                model[name] = dict(due=now + ms / 1000.0, tok=i, idx=i)
            elif kind == "remove":
                dm.remove(name)
                model.pop(name, None)
            elif kind == "reset":
                ms = S.real("ms%d" % i, 0, 3000)
                dm.reset(ms, cb, name, tok=i)
                model[name] = dict(due=now + ms / 1000.0, tok=i, idx=i)
            elif kind == "add_if":
                ms = S.real("ms%d" % i, 0, 3000)
                dm.add_if_doesnt_exist(ms, cb, name, tok=i)
                if name not in model:
                    model[name] = dict(due=now + ms / 1000.0, tok=i, idx=i)
            elif kind == "clear":
                dm.clear()
                model.clear()
            elif kind == "run_now":
                n0 = len(fired)
                dm.run_now(name)
                if name in model:
                    model_fire(name, now)
                    if len(fired) != n0 + 1 + (0) or fired[n0][0] != name:
                        raise Violation("run-now-runs-pending-callback", "run_now", "run_now(%s) with a pending delay ran %d callbacks" % (name, len(fired) - n0))
                elif len(fired) != n0:
                    raise Violation("run-now-runs-pending-callback", "run_now", "run_now(%s) without a pending delay ran a callback" % name)
            for nm in NAMES:
                if dm.check(nm) != (nm in model):
                    raise Violation("check-is-truthful", "check", "after op %d (%s %s): check(%s)=%s, model %s" % (i, kind, name, nm, dm.check(nm), nm in model))
            gap = S.real("gap%d" % i, 0, 2)
            loop.run_for(gap)
        loop.run_for(7)
        advance_model(loop.time())
    except Tie:
        S.assume(False)
    for what, val in inside:
        if what == "check" and val:
            raise Violation("check-is-truthful", "_process_delay_callback", "check(own name) inside the callback of the delay that is firing says it is still pending")
        if what == "run_now" and val:
            raise Violation("delay-fires-exactly-once-or-never", "run_now", "run_now(own name) from inside the firing delay's callback ran the callback %d more time(s)" % val)
    fs = sorted(fired, key=lambda x: x[2])
    es = sorted(exp, key=lambda x: x[2])
    if len(fs) != len(es):
        raise Violation("delay-fires-exactly-once-or-never", "add" if len(fs) > len(es) else "_process_delay_callback",
                        "fired %s expected %s (kinds %s)" % (fired, exp, kinds))
    for f, e in zip(fs, es):
        if f[0] != e[0] or f[2] != e[2]:
            raise Violation("delay-fires-at-promised-time", "add", "fired %s expected %s" % (f, e))
        if f[1] != e[1]:
            raise Violation("callback-gets-stored-arguments", "run_now" if "run_now" in kinds else "_process_delay_callback", "fired %s expected %s" % (f, e))
    if dm.delays:
        raise Violation("check-is-truthful", "_process_delay_callback", "delays left: %s" % list(dm.delays))
    S.note("nontrivial", len(es) > 0)
    S.note("fired", len(es))


def body_delay_tie(S, loop, part):
    """two delays due at the very same instant; the one that runs first removes / replaces the other or clears the manager:
    the other one never fires (whichever of the two the loop runs first)"""
    from mpf.core.events import EventManager
    from mpf.core.delays import DelayManager
    S.now_symbolic(loop)
    m = stubs.StubMachine(loop)
    m.events = EventManager(m)
    dm = DelayManager(m)
    fired = []
    action = part["action"]             # remove | reset | clear | add (replace under the same name)
    ms0 = S.real("ms0", 1, 3000)
    gap = S.real("gap", 0, 1)
    S.assume(gap * 1000 < ms0)
    ms_new = S.real("ms_replacement", 1, 3000)

    def mk(name, other):
        def cb(**kwargs):
            fired.append((name, kwargs.get("tok"), loop.time()))
            if len(fired) == 1:
                if action == "remove":
                    dm.remove(other)
                elif action == "clear":
                    dm.clear()
                elif action == "reset":
                    dm.reset(ms_new, mk2(other), other, tok="new")
                else:
                    dm.add(ms_new, mk2(other), other, tok="new")
        return cb

    def mk2(name):
        def cb(**kwargs):
            fired.append((name, kwargs.get("tok"), loop.time()))
        return cb
    t0 = loop.time()
    dm.add(ms0, mk("a", "b"), "a", tok="old")
    loop.run_for(gap)
    dm.add(ms0 - (loop.time() - t0) * 1000, mk("b", "a"), "b", tok="old")         # due at the same instant as "a"
    loop.run_for(8)
    old = [f for f in fired if f[1] == "old"]
    new = [f for f in fired if f[1] == "new"]
    if len(old) != 1:
        raise Violation("removed-or-replaced-delay-never-fires", "DelayManager.remove" if action in ("remove", "clear") else "DelayManager.add",
                        "two delays due at +%s; the first to run did '%s' on the other, yet the callbacks that ran are %s" % (ms0 / 1000.0, action, fired))
    if action in ("reset", "add"):
        if len(new) != 1 or new[0][2] != old[0][2] + ms_new / 1000.0:
            raise Violation("delay-fires-at-promised-time", "DelayManager.add", "replacement delay: fired %s, expected once at +%s" % (new, old[0][2] - t0 + ms_new / 1000.0))
    elif new:
        raise Violation("delay-fires-exactly-once-or-never", "DelayManager.add", "unexpected callbacks %s" % new)
    if dm.delays:
        raise Violation("check-is-truthful", "_process_delay_callback", "delays left: %s" % list(dm.delays))
    S.note("nontrivial", True)
    S.note("action", action)


def body_periodic(S, loop, part):
    from mpf.core.clock import ClockBase
    S.now_symbolic(loop)
    clock = ClockBase(None, loop)
    interval = S.real("interval", 0.05, 2)
    n_max = part["ticks"]
    mode = part["mode"]
    if mode == "stall":
        # the loop is blocked for more than one interval before one tick: the missed ticks are made up, nothing drifts
        stall_k = S.int("stalled_tick", 1, n_max - 2)
        stall = S.real("stall_s", 0, 4)
        S.assume(stall > interval)
        S.assume(stall < 2 * interval)
        lates = [0.0] * (n_max + 2)
        lates[stall_k - 1] = stall
    else:
        lates = [S.real("late%d" % k, 0, 0.005) for k in range(n_max + 2)]
    S.assume(interval > 0.01)
    calls = []
    k_seen = [0]

    def late(handle):
        # lateness applies to the periodic task's own handles only
        cb = getattr(handle, "_callback", None)
        if getattr(cb, "__self__", None) is task_box[0] and k_seen[0] < len(lates):
            return lates[k_seen[0]]
        return 0.0
    task_box = [None]
    t0 = loop.time()

    def tick():
        calls.append(loop.time())
        k_seen[0] += 1
    loop.late = late
    task = clock.schedule_interval(tick, interval)
    task_box[0] = task
    cancel_at = S.real("cancel_at", 0, 2 * n_max)
    if mode == "cancel":
        loop.call_at(t0 + cancel_at, lambda: clock.unschedule(task))
    horizon = t0 + interval * n_max + 0.5 * interval
    S.assume(mode != "cancel" or cancel_at < interval * n_max)

    async def run():
        import asyncio
        while loop.time() < horizon:
            await asyncio.sleep(horizon - loop.time())
    loop.run_until_complete(run())
    loop.late = None
    # k-th tick: scheduled for t0 + k*interval exactly, executed within its lateness, never after cancel
    for k, at in enumerate(calls, start=1):
        ideal = t0 + k * interval
        if at < ideal or (at > ideal + 0.005 and mode != "stall"):
            raise Violation("periodic-no-drift", "PeriodicTask._run", "tick %d ran at +%s, ideal +%s (interval %s): lateness accumulated" % (k, at - t0, ideal - t0, interval))
        if mode == "cancel" and at > t0 + cancel_at + 0.005:
            raise Violation("no-tick-after-cancel", "PeriodicTask.cancel", "tick %d at +%s after cancel at +%s" % (k, at - t0, cancel_at))
    if mode != "cancel":
        if len(calls) != n_max:
            raise Violation("periodic-once-per-interval", "PeriodicTask._schedule", "%d ticks in %d intervals" % (len(calls), n_max))
        nxt = task.get_next_call_time()
        if nxt != t0 + (n_max + 1) * interval:
            raise Violation("periodic-no-drift", "PeriodicTask._run", "next call scheduled for +%s, ideal +%s" % (nxt - t0, (n_max + 1) * interval))
    else:
        # the loop runs due handles in order of their scheduled instants: tick k (scheduled t0+k*I) precedes the
        # cancel handle iff k*I < cancel_at, however late the loop is
        want = 0
        for k in range(1, n_max + 1):
            S.assume(k * interval != cancel_at)
            if k * interval < cancel_at:
                want = k
            else:
                break
        if len(calls) != want:
            raise Violation("periodic-once-per-interval", "PeriodicTask._run", "%d ticks before cancel at +%s, expected %d" % (len(calls), cancel_at, want))
    S.note("nontrivial", len(calls) > 0)
    S.note("ticks", len(calls))


class _Tpl:
    def __init__(self, v):
        self.v = v

    def evaluate(self, *a, **k):
        return self.v


def setup_timer(part):
    t = stubs.boot("timers")
    t.machine.events.post("start_tm")
    t.advance_time_and_run(0.1)
    return t


def teardown_timer(t):
    stubs.shutdown(t)


TOPS = ["start", "stop", "pause", "add", "sub", "jump", "restart", "wait", "mode_stop"]


def body_timer(S, t, part):
    """timer device: ticks once per interval while running, never while paused/stopped, completes exactly at the end value"""
    m = t.machine
    tmr = m.timers["tmr"]
    S.now_symbolic(t.loop)
    up = bool(S.bool("direction_up"))
    start = S.int("start_value", -3, 6)
    end = S.int("end_value", -3, 8)
    interval = S.real("tick_interval", 0.5, 2)
    pause_s = S.int("pause_secs", 1, 3)
    roc = part.get("restart_on_complete", False)
    tmr.direction = 'up' if up else 'down'
    tmr.start_value, tmr.end_value, tmr.tick_secs, tmr.restart_on_complete = start, end, interval, roc
    tmr.ticks = start
    # control event values are templates: replace the pause value
    for key in tmr.event_keys:
        for rh in m.events.registered_handlers.get(key.event, []):
            if rh.key == key.key and key.event == "tmr_pause":
                rh.kwargs["timer_value"] = _Tpl(pause_s)
    ev = {"tick": [], "complete": 0, "started": 0, "stopped": 0}
    m.events.add_handler("timer_tmr_tick", lambda ticks, **kwargs: ev["tick"].append(ticks))
    m.events.add_handler("timer_tmr_complete", lambda **kwargs: ev.__setitem__("complete", ev["complete"] + 1))
    M = dict(ticks=start, running=False, next_tick=None, resume_at=None, completes=0, dead=False)

    def done():
        return M["ticks"] >= end if up else M["ticks"] <= end

    def m_complete(now):
        M["running"], M["next_tick"], M["resume_at"] = False, None, None
        M["completes"] += 1
        if roc:
            M["ticks"] = start
            m_start(now)

    def m_start(now):
        if M["running"] or M["dead"]:
            return
        if done():
            m_complete(now) if not roc else M.__setitem__("completes", M["completes"] + 1)
            return
        M["running"], M["resume_at"] = True, None
        M["next_tick"] = now + interval

    def m_advance(to):
        while True:
            cands = [x for x in (M["next_tick"], M["resume_at"]) if x is not None]
            for x in cands:
                S.assume(x != to)
            cands = [x for x in cands if x < to]
            if not cands:
                return
            nxt = cands[0]
            for x in cands[1:]:
                S.assume(x != nxt)
                if x < nxt:
                    nxt = x
            if nxt is M["resume_at"] or (M["resume_at"] is not None and nxt == M["resume_at"]):
                M["resume_at"] = None
                m_start(nxt)
            else:
                M["ticks"] += 1 if up else -1
                M["next_tick"] = nxt + interval
                if done():
                    m_complete(nxt)
    S.assume(start < end if up else start > end)          # a timer whose start value already lies at/after its end value is a degenerate configuration
    ticked = 0
    for i in range(part["n"]):
        op = part["ops"][i] if i < len(part["ops"]) else TOPS[S.choice("op%d" % i, len(TOPS))]
        now = t.loop.time()
        m_advance(now)
        if op == "start":
            m.events.post("tmr_start")
            m_start(now)
        elif op == "stop":
            m.events.post("tmr_stop")
            M["running"], M["next_tick"], M["resume_at"] = False, None, None
        elif op == "pause":
            m.events.post("tmr_pause")
            M["running"], M["next_tick"] = False, None
            if not M["dead"]:
                M["resume_at"] = now + pause_s
        elif op in ("add", "sub", "jump") and not M["dead"]:
            m.events.post("tmr_" + op)
            M["ticks"] = M["ticks"] + 2 if op == "add" else (M["ticks"] - 1 if op == "sub" else 1)
            if op == "jump" and M["running"]:
                M["next_tick"] = now + interval          # jump re-creates the periodic task: the tick phase restarts
            if done():
                m_complete(now)
        elif op == "restart" and not M["dead"]:
            m.events.post("tmr_restart")
            M["ticks"] = start
            if M["running"]:
                M["next_tick"] = now + interval          # reset() jumps: the tick phase restarts
            else:
                m_start(now)
        elif op == "mode_stop":
            m.events.post("stop_tm")
            M["running"], M["next_tick"], M["resume_at"], M["dead"] = False, None, None, True
        elif op == "wait":
            t.advance_time_and_run(S.real("wait%d" % i, 0, 3))
        t.advance_time_and_run(0.001)
        m_advance(t.loop.time())
        got = (tmr.ticks, bool(tmr.running), ev["complete"])
        want = (M["ticks"], M["running"], M["completes"])
        if got != want:
            clause = "timer-ticks-once-per-interval-while-running" if got[0] != want[0] else ("never-ticks-while-paused-or-stopped" if got[1] != want[1] else "timer-completes-exactly-at-end-value")
            raise Violation(clause, "Timer." + (op if op not in ("wait", "mode_stop", "sub") else {"wait": "_timer_tick", "mode_stop": "stop", "sub": "subtract"}[op]),
                            "after op %d %s: (ticks, running, completes) = %s, reference %s" % (i, op, got, want))
    # run out: nothing may tick after a stop / mode stop
    t.advance_time_and_run(4)
    m_advance(t.loop.time())
    got = (tmr.ticks, bool(tmr.running), ev["complete"])
    want = (M["ticks"], M["running"], M["completes"])
    if got != want:
        raise Violation("never-ticks-while-paused-or-stopped" if not want[1] else "timer-ticks-once-per-interval-while-running", "Timer._timer_tick",
                        "after the run-out: (ticks, running, completes) = %s, reference %s" % (got, want))
    S.note("nontrivial", len(ev["tick"]) > 0 or ev["complete"] > 0)
    S.note("ticks_seen", len(ev["tick"]))


def scenarios(tier):
    n = 3 if tier == "quick" else 4
    seqs = []

    def rec(p):
        if len(p) == n:
            seqs.append(p)
            return
        for k in KINDS:
            rec(p + [k])
    rec(["add"])
    if tier == "quick":
        # names and the first callback's action rotate deterministically over the partitions (symbolic in thorough)
        pats = [[0, 0, 0], [0, 1, 0], [0, 0, 1], [0, 1, 1]]
        parts = [dict(kinds=s, cb_action=i % 7, names=pats[(i // 4 + i) % 4]) for i, s in enumerate(seqs)]
        parts += [dict(kinds=["add", "add"], cb_action=a, names=[0, 1]) for a in (4, 5, 6)]
    else:
        parts = [dict(kinds=s) for s in seqs]
    per = [dict(mode="run", ticks=4 if tier == "quick" else 8), dict(mode="cancel", ticks=3 if tier == "quick" else 6), dict(mode="stall", ticks=5 if tier == "quick" else 8)]
    pb = 70 if tier == "quick" else 200
    if tier == "quick":
        tparts = [dict(ops=["start", a, b], n=3) for a in ("wait", "pause", "add") for b in ("stop", "mode_stop", "wait", "start")]
        # value changes on a timer that is not running (never started / stopped / paused) must not make it tick
        tparts += [dict(ops=["jump", "wait"], n=3), dict(ops=["start", "stop", "jump", "wait"], n=4), dict(ops=["start", "pause", "jump"], n=4)]
    else:
        tparts = [dict(ops=["start", a], n=4, restart_on_complete=r) for a in TOPS for r in (False, True)]
    return [Scenario("timer", setup_timer, body_timer, tparts, teardown=teardown_timer, part_budget=pb, per_path_timeout=30),
            Scenario("delays", setup, body_delays, parts, teardown=teardown, part_budget=pb, per_path_timeout=30),
            Scenario("delay_tie", setup, body_delay_tie, [dict(action=a) for a in ("remove", "reset", "clear", "add")], teardown=teardown, part_budget=pb, per_path_timeout=30),
            Scenario("periodic", setup, body_periodic, per, teardown=teardown, part_budget=pb, per_path_timeout=60)]
