"""C10 Hardware switch-to-coil rules match the enabled devices exactly. DESIGN.md section 2/C10."""
from engine.runner import Scenario
from engine.symdrv import Violation
from engine import stubs

ANCHORS = ["mpf/devices/flipper.py", "mpf/devices/autofire.py", "mpf/devices/kickback.py", "mpf/core/platform_controller.py",
           "mpf/platforms/virtual.py", "mpf/modes/tilt/code/tilt.py"]
FUNCTIONS = ["Flipper.enable/disable/sw_flip/sw_release/_ball_search", "Flipper._enable_single_coil_rule/_enable_main_coil_eos_cutoff_rule/_enable_hold_coil_rule",
             "AutofireCoil.enable/disable/_hit/_ball_search", "Kickback._hit", "PlatformController.set_*_rule/clear_hw_rule", "SoftwareEosRepulseManager",
             "VirtualHardwarePlatform.set_*_rule/clear_hw_rule", "default control events (ball_started, ball_will_end, service_mode_entered), tilt mode"]
EXPLANATION = ("Bounded symbolic execution (CrossHair/z3) of the real flipper, autofire and kickback devices on a booted machine with a single-wound flipper, a "
               "dual-wound EOS flipper, an autofire coil with timeout protection and a kickback on distinct switches and coils. A solver-chosen sequence of requests "
               "(enable, disable, software flip/release, ball search, rapid switch hits, ball_will_end, tilt, service mode, waits with symbolic real durations against the "
               "timeout re-enable and ball-search hold timers) is applied; after every step the platform's rule table must equal the union of the rules of the devices "
               "that are enabled, each installed exactly once, explicitly disabled devices stay disabled whatever timer fires later, and no flipper coil stays energised.")
NONTRIVIAL_RULE = "at least one rule was installed and at least one removed during the path"
BOUNDS = {"quick": {"requests": 4, "gap_s": "[0,3] real", "devices": 4}, "thorough": {"requests": 6, "gap_s": "[0,3] real", "devices": 4}}
ASSUMPTIONS = ["virtual platform rule table stands for 'the rules present in hardware'", "a wait that ends exactly when a timer fires is assumed away",
               "when the autofire timeout protection triggers is not modelled (the statement does not define it): the device's own enabled flag is the reference, "
               "constrained by: after an explicit disable / ball end / tilt / service no rule may come back without an explicit enable"]
BUDGET = {"quick": 100, "thorough": 600}

RULES = {
    "f1": {("s_f1", "c_f1"): "pulse_on_hit_and_enable_and_release"},
    "f2": {("s_f2", "c_f2_main"): "pulse_on_hit_and_release_and_disable", ("s_f2_eos", "c_f2_main"): "pulse_on_hit_and_release_and_disable",
           ("s_f2", "c_f2_hold"): "pulse_on_hit_and_enable_and_release"},
    "f3": {("s_f3", "c_f3"): "pulse_on_hit_and_enable_and_release_and_disable", ("s_f3_eos", "c_f3"): "pulse_on_hit_and_enable_and_release_and_disable"},
    "a1": {("s_a1", "c_a1"): "pulse_on_hit"},
    "k1": {("s_k1", "c_k1"): "pulse_on_hit"},
}
OPS = ["enable", "disable", "flip", "release", "ball_search", "hits", "wait", "ball_will_end", "tilt", "service", "ball_started", "button"]


def setup(part):
    t = stubs.boot("flippers")
    t.machine.playfield.add_ball = lambda **kwargs: None
    t.machine.ball_controller.num_balls_known = 3
    return t


def teardown(t):
    stubs.shutdown(t)


def body(S, t, part):
    m = t.machine
    S.now_symbolic(t.loop)
    plat = m.default_platform
    devs = {"f1": m.flippers["f1"], "f2": m.flippers["f2"], "f3": m.flippers["f3"], "a1": m.autofire_coils["a1"], "k1": m.kickbacks["k1"]}
    flipper_coils = {"c_f1": "f1", "c_f2_main": "f2", "c_f2_hold": "f2", "c_f3": "f3"}
    fired_while_disabled = []
    sw_by_hw = {s.hw_switch: s.name for s in m.switches.values()}
    coil_by_hw = {c.hw_driver: c.name for c in m.coils.values()}
    installs = []
    for fn in [x for x in dir(plat) if x.startswith("set_") and x.endswith("_rule")]:
        orig = getattr(plat, fn)

        def wrap(*a, _orig=orig, _fn=fn, **kw):
            installs.append(_fn)
            return _orig(*a, **kw)
        setattr(plat, fn, wrap)
    coil_state = {}
    def coil_cmd(c, what):
        coil_state[c] = what
        if what != "off" and not devs[flipper_coils[c]]._enabled:
            fired_while_disabled.append((c, what))
    for cname in flipper_coils:
        drv = m.coils[cname].hw_driver
        drv.enable = (lambda ps, hs, _c=cname: coil_cmd(_c, "on"))
        drv.disable = (lambda _c=cname: coil_cmd(_c, "off"))
        drv.pulse = (lambda ps, _c=cname: coil_cmd(_c, "pulsed"))
    # start a game: ball_started enables flippers and autofires
    m.switch_controller.process_switch("s_start", 1, logical=True)
    m.switch_controller.process_switch("s_start", 0, logical=True)
    t.advance_time_and_run(1)
    if m.game is None:
        raise Violation("harness", "start", "no game")
    must_be_off = {k: False for k in devs}          # explicit disable since the last explicit enable
    must_be_on = {"f1": True, "f2": True, "f3": True, "k1": False, "a1": None}
    removed = installed = 0

    def table():
        out = {}
        for (sw, drv), kind in plat.rules.items():
            out[(sw_by_hw.get(sw, "?"), coil_by_hw.get(drv, "?"))] = kind
        return out

    def check(where):
        want = {}
        for k, d in devs.items():
            en = bool(d._enabled)
            if must_be_off[k] and en:
                raise Violation("disabled-device-stays-disabled", type(d).__name__ + ".disable", "%s: %s is enabled again although it was disabled and never re-enabled" % (where, k))
            if must_be_on[k] and not en:
                raise Violation("enabled-device-stays-enabled", type(d).__name__ + ".enable", "%s: %s is not enabled although it was enabled and never disabled" % (where, k))
            if en:
                want.update(RULES[k])
        got = table()
        if got != want:
            extra = {k: v for k, v in got.items() if want.get(k) != v}
            missing = {k: v for k, v in want.items() if got.get(k) != v}
            raise Violation("rules-equal-enabled-devices", "PlatformController.clear_hw_rule" if extra else "Flipper.enable",
                            "%s: extra rules %s, missing rules %s (enabled: %s)" % (where, extra, missing, {k: bool(d._enabled) for k, d in devs.items()}))
        if fired_while_disabled:
            raise Violation("buttons-cannot-fire-coils-of-disabled-flippers", "SoftwareEosRepulseManager", "%s: coil commands while the flipper is disabled: %s" % (where, fired_while_disabled))
        for k in ("f1", "f2", "f3"):
            if not devs[k]._enabled:
                for c in [c for c, f in flipper_coils.items() if f == k]:
                    if coil_state.get(c) == "on":
                        raise Violation("no-flipper-coil-left-energised", "Flipper.disable", "%s: flipper %s is disabled but coil %s was last switched on" % (where, k, c))
    # the game's own ball_started / ball_will_end events are requests like any other: follow them in the model
    def on_ball_started(**kwargs):
        for k2 in ("f1", "f2", "f3", "a1"):
            must_be_off[k2] = False
            must_be_on[k2] = True if k2 != "a1" else None

    def on_ball_will_end(**kwargs):
        for k2 in devs:
            must_be_off[k2] = True
            must_be_on[k2] = False
    m.events.add_handler("ball_started", on_ball_started, priority=10**6)
    m.events.add_handler("ball_will_end", on_ball_will_end, priority=10**6)
    m.events.add_handler("service_mode_entered", on_ball_will_end, priority=10**6)
    check("after ball start")
    n_installs_base = len(installs)
    for i in range(part["n"]):
        op = part["ops"][i] if i < len(part["ops"]) else part["alphabet"][S.choice("op%d" % i, len(part["alphabet"]))]
        tgt = None
        if ":" in op:
            bits = op.split(":")
            op = bits[0]
            if op == "sw":
                m.switch_controller.process_switch(bits[1], int(bits[2]), logical=True)
                op = "switch"
            else:
                tgt = bits[1]
        if op == "button":
            # a cabinet button goes down or up (the virtual platform does not execute rules: only mpf's own reaction matters)
            sw_name = ("s_f1", "s_f2")[S.choice("button%d" % i, 2)]
            m.switch_controller.process_switch(sw_name, 1 if S.bool("button_down%d" % i) else 0, logical=True)
            op = "switch"
        if op == "switch":
            pass
        elif op in ("enable", "disable", "flip", "release", "ball_search"):
            names = ["f1", "f2"] if op in ("flip", "release", "ball_search") else ["f1", "f2", "a1", "k1"]
            if tgt is None:
                tgt = names[S.choice("target%d" % i, len(names))]
            d = devs[tgt]
            before = len(installs)
            was = bool(d._enabled)
            if op == "enable":
                d.enable()
                must_be_off[tgt] = False
                if tgt != "a1":
                    must_be_on[tgt] = True
                n_new = len(installs) - before
                exp = 0 if was else {"f1": 1, "f2": 2, "f3": 1, "a1": 1, "k1": 1}[tgt]
                if n_new != exp:
                    raise Violation("enabling-installs-each-rule-once", type(d).__name__ + ".enable", "enable(%s) while enabled=%s made %d rule installations, expected %d" % (tgt, was, n_new, exp))
                installed += n_new
            elif op == "disable":
                d.disable()
                must_be_off[tgt] = True
                must_be_on[tgt] = False
                removed += 1 if was else 0
            elif op == "flip":
                m.events.post("%s_flip" % tgt)
            elif op == "release":
                m.events.post("%s_release" % tgt)
            else:
                d._ball_search(1, 1)
        elif op == "hits":
            k = S.int("hits%d" % i, 1, 4)
            dt = S.real("hit_gap%d" % i, 0, 0.4)
            which = "s_a1" if (tgt == "a1" or (tgt is None and S.bool("hits_on_autofire%d" % i))) else "s_k1"
            for _ in range(4):
                if _ < k:
                    m.switch_controller.process_switch(which, 1, logical=True)
                    m.switch_controller.process_switch(which, 0, logical=True)
                    t.advance_time_and_run(dt)
        elif op in ("ball_will_end", "tilt", "service", "ball_started"):
            if op == "tilt":
                for _ in range(2):          # two warnings = tilt (tilt mode config)
                    m.switch_controller.process_switch("s_tilt", 1, logical=True)
                    m.switch_controller.process_switch("s_tilt", 0, logical=True)
                    t.advance_time_and_run(0.4)
            else:
                m.events.post({"ball_will_end": "ball_will_end", "service": "service_mode_entered", "ball_started": "ball_started"}[op])
            t.advance_time_and_run(0.001)
            if op != "ball_started":
                removed += 1
        gap = S.real("gap%d" % i, 0, 3)
        t.advance_time_and_run(gap)
        check("after op %d %s%s (+%s s)" % (i, op, " " + tgt if tgt else "", gap))
    t.advance_time_and_run(4)
    check("after the run-out")
    S.note("nontrivial", removed > 0)
    S.note("installs", len(installs) - n_installs_base)


def scenarios(tier):
    alpha = ["enable", "disable", "flip", "release", "ball_search", "hits", "wait", "ball_will_end", "service"]
    if tier == "quick":
        firsts = [["hits", "enable", "disable"], ["flip", "disable"], ["ball_search", "ball_will_end"], ["disable", "enable"], ["hits", "ball_will_end"],
                  ["flip", "service"], ["enable", "tilt"], ["ball_will_end", "ball_started"]]
        parts = [dict(ops=f, n=len(f) + 1, alphabet=alpha) for f in firsts]
        parts.append(dict(ops=["hits:a1", "enable:a1", "disable:a1", "wait"], n=4, alphabet=alpha))            # timeout re-enable vs. explicit disable
        parts.append(dict(ops=["sw:s_f3:1", "sw:s_f3_eos:1", "disable:f3", "sw:s_f3_eos:0"], n=4, alphabet=alpha))   # software EOS repulse after disable
        parts.append(dict(ops=["sw:s_f1:1", "flip:f1"], n=3, alphabet=["ball_will_end", "disable", "service", "release"]))   # software flip with the button held, then the flipper goes away
        parts.append(dict(ops=["sw:s_f2:1", "flip:f2"], n=3, alphabet=["ball_will_end", "disable", "service", "release"]))
    else:
        parts = [dict(ops=[a, b], n=5, alphabet=alpha + ["tilt", "ball_started", "button"]) for a in alpha + ["button"] for b in ("enable", "disable", "hits", "ball_will_end", "wait")]
    pb = 80 if tier == "quick" else 400
    return [Scenario("requests", setup, body, parts, teardown=teardown, part_budget=pb, per_path_timeout=60)]
