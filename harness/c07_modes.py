"""C07 Mode lifecycle is well-formed and leaves nothing behind. DESIGN.md section 2/C07."""
from engine.runner import Scenario
from engine.symdrv import Violation
from engine import stubs

ANCHORS = ["mpf/core/mode.py", "mpf/core/mode_controller.py", "mpf/core/config_player.py", "mpf/core/device_manager.py",
           "mpf/core/mode_device.py", "mpf/core/enable_disable_mixin.py", "mpf/core/delays.py"]
FUNCTIONS = ["Mode.start/_started/_mode_started_callback", "Mode.stop/_stopped/_mode_stopped_callback", "Mode._add_mode_devices/_remove_mode_devices",
             "Mode._setup_device_control_events/_control_event_handler", "Mode.add_mode_event_handler/_remove_mode_event_handlers/_remove_mode_switch_handlers",
             "ModeController.set_mode_state", "ConfigPlayer.mode_start/mode_stop (event_player, variable_player)", "Timer/Counter mode-device load and removal", "DelayManager.clear"]
EXPLANATION = ("Bounded symbolic execution (CrossHair/z3) of the real mode machinery on a booted machine with four modes (plain, wait-queue with a logic block, "
               "a mode with counter/timer/event_player/variable_player entries and a delayed control event, a mode with custom code adding handlers, switch handlers and delays). "
               "A script of start/stop requests (by event, direct, from a handler of the mode's own lifecycle events, while a lifecycle queue is held) with symbolic gaps "
               "and priorities is run; oracles: per-mode event stream grammar, accepted start/stop complete, active_modes equals the active modes sorted by priority, and a "
               "canonical snapshot of the machine registries (event handlers, switch handlers, mode and machine delays, running timers) equal before start and after stop.")
NONTRIVIAL_RULE = "at least one mode went through a complete start/stop cycle and the registry snapshots were compared"
BOUNDS = {"quick": {"requests": 4, "modes": 4, "gap_s": "[0,4] real", "hold_s": "[0,1] real", "cycles": "<=2"},
          "thorough": {"requests": 5, "modes": 4, "gap_s": "[0,4] real", "hold_s": "[0,1] real", "cycles": "<=3"}}
ASSUMPTIONS = ["non-game modes (game modes need a player: C11 covers device state across players)", "bounded liveness: start/stop must complete within 6 s of virtual time",
               "registry snapshot ignores handler keys (uuids) and compares (event, handler qualname, priority, kwargs) multisets"]
BUDGET = {"quick": 100, "thorough": 600}
REQ = ["start_ev", "stop_ev", "start_direct", "stop_direct", "wait", "restart_from_stopped", "stop_in_starting", "delayed_control", "switch_hit", "start_prio", "start_other", "timer_pause"]


def setup(part):
    t = stubs.boot("modes")
    t.machine.playfield.add_ball = lambda **kwargs: None
    t.machine.ball_controller.num_balls_known = 3
    return t


def teardown(t):
    stubs.shutdown(t)


def _hname(h):
    f = getattr(h, "func", h)
    return getattr(f, "__qualname__", repr(type(f)))


def snapshot(m):
    ev = {}
    for name, lst in m.events.registered_handlers.items():
        if not lst:
            continue
        ev[name] = sorted((_hname(rh.callback), rh.priority, sorted(str(k) for k in rh.kwargs)) for rh in lst)
    sw = {}
    for s, states in m.switch_controller.registered_switches.items():
        sw[s.name] = [sorted((rs.ms, _hname(rs.callback)) for rs in st) for st in states]
    delays = {"machine": sorted(str(k)[:12] if len(str(k)) < 30 else "<uuid>" for k in m.delay.delays)}
    for name, mode in m.modes.items():
        delays[name] = sorted("<uuid>" if len(str(k)) > 30 else str(k) for k in mode.delay.delays)
    timers = {name: bool(tm.running) for name, tm in m.timers.items()}
    return dict(events=ev, switches=sw, delays=delays, timers=timers)


def diff(a, b):
    out = []
    for sec in a:
        keys = set(a[sec]) | set(b[sec])
        for k in sorted(keys):
            if a[sec].get(k) != b[sec].get(k):
                out.append("%s[%s]: before %s after %s" % (sec, k, a[sec].get(k), b[sec].get(k)))
    return out


def body(S, t, part):
    m = t.machine
    S.now_symbolic(t.loop)
    mode = m.modes[part["mode"]]
    name = mode.name
    t.advance_time_and_run(0.1)
    base = snapshot(m)
    stream = []
    LIFE = ["will_start", "starting", "started", "will_stop", "stopping", "stopped"]
    hold = S.real("hold_s", 0, 1)
    restart_once = [False]
    hold_starting = [False]
    for ev in LIFE:
        def h(queue=None, _ev=ev, **kwargs):
            stream.append(_ev)
            if _ev == "stopped" and restart_once[0]:
                restart_once[0] = False
                mode.start()
            if _ev == "starting" and hold_starting[0] and queue is not None:
                hold_starting[0] = False
                queue.wait()
                t.loop.call_later(hold, queue.clear)
        m.events.add_handler("mode_%s_%s" % (name, ev), h, priority=10**6)
    base_with_probe = snapshot(m)
    other_mode = m.modes["mcode" if name == "mplain" else "mplain"]
    accepted_start = accepted_stop = 0
    cycles = 0
    reqs = part["reqs"]
    for i in range(part["n"]):
        rq = reqs[i] if i < len(reqs) else part["alphabet"][S.choice("req%d" % i, len(part["alphabet"]))]
        was_idle = not mode.active and not mode.starting and not mode.stopping
        if rq == "start_ev":
            m.events.post("start_" + name)
        elif rq == "start_direct":
            mode.start()
        elif rq == "stop_ev":
            m.events.post("stop_" + name)
        elif rq == "stop_direct":
            mode.stop()
        elif rq == "start_prio":
            # explicit priority; a request that is rejected (already active / starting) must not disturb the ordering
            mode.start(mode_priority=S.int("prio%d" % i, 1, 400))
        elif rq == "start_other":
            other_mode.start()
        elif rq == "restart_from_stopped":
            restart_once[0] = True
            if mode.active:
                mode.stop()
        elif rq == "stop_in_starting":
            hold_starting[0] = True
            mode.start()
            t.advance_time_and_run(hold / 2)
            mode.stop()
        elif rq == "delayed_control":
            m.events.post("mrich_enable_later")
        elif rq == "timer_pause":
            m.events.post("mrich_timer_pause")          # timed pause (2 s) of the mode's timer: a pending resume when the mode stops
        elif rq == "switch_hit":
            m.switch_controller.process_switch("s_b", 1, logical=True)
        elif rq == "game_start":
            m.switch_controller.process_switch("s_start", 1, logical=True)
            m.switch_controller.process_switch("s_start", 0, logical=True)
            t.advance_time_and_run(1)
            if m.game is None:
                raise Violation("harness", "game_start", "game did not start")
        elif rq == "game_end":
            if m.game is not None:
                m.game.end_game()
                t.advance_time_and_run(2)
        elif rq == "expect_active":
            t.advance_time_and_run(1)
            if not mode.active:
                raise Violation("accepted-start-becomes-active", "Mode.start", "mode %s is not active 1 s after a start request made during a game (starting=%s); stream %s" % (name, mode.starting, stream))
        elif rq == "wait":
            pass
        gap = S.real("gap%d" % i, 0, 4)
        t.advance_time_and_run(gap)
        # active_modes == active modes sorted by (priority, name) descending
        act = [x for x in m.modes.values() if x.active]
        want = sorted(act, key=lambda x: (x.priority, x.name), reverse=True)
        if list(m.mode_controller.active_modes) != want:
            raise Violation("active-modes-list-equals-active-modes-by-priority", "ModeController.set_mode_state",
                            "active_modes %s, modes that are active %s" % ([x.name for x in m.mode_controller.active_modes], [x.name for x in want]))
    # settle: whatever was requested must complete; then make sure the mode ends stopped
    t.advance_time_and_run(6)
    if other_mode.active:
        other_mode.stop()
        t.advance_time_and_run(3)
    if m.game is not None and part["mode"] == "mgame" and not mode.active and not mode.starting:
        m.game.end_game()
        t.advance_time_and_run(3)
    if mode.starting or mode.stopping:
        raise Violation("accepted-start-and-stop-complete", "Mode.start" if mode.starting else "Mode.stop",
                        "mode %s still %s 6 s after the last request; stream %s" % (name, "starting" if mode.starting else "stopping", stream))
    if mode.active:
        # an active mode must react to its configured stop event (its handlers exist while it is active)
        m.events.post("stop_" + name)
        t.advance_time_and_run(6)
        if mode.active and not mode.stopping:
            raise Violation("active-mode-has-its-handlers", "Mode._mode_stopped_callback", "mode %s is active but ignores its stop event stop_%s; stream %s" % (name, name, stream))
    if mode.active or mode.stopping or mode.starting:
        raise Violation("accepted-start-and-stop-complete", "Mode.stop", "mode %s did not stop; stream %s" % (name, stream))
    t.advance_time_and_run(6)
    if m.game is not None:
        m.game.end_game()          # the game's own registrations are not the mode's: end it before comparing registries
        t.advance_time_and_run(3)
    # stream grammar: (will_start starting started will_stop stopping stopped)*
    for j, e in enumerate(stream):
        if e != LIFE[j % 6]:
            raise Violation("lifecycle-events-once-per-transition-in-order", "Mode.start" if j % 6 < 3 else "Mode.stop",
                            "event %d is %s, expected %s; stream %s" % (j, e, LIFE[j % 6], stream))
    if len(stream) % 6 != 0:
        raise Violation("lifecycle-events-once-per-transition-in-order", "Mode._stopped", "stream ends inside a cycle: %s" % stream)
    cycles = len(stream) // 6
    after = snapshot(m)
    d = diff(base_with_probe, after)
    if d:
        raise Violation("nothing-left-behind-after-stop", "Mode._mode_stopped_callback", "registries differ after %d cycle(s): %s" % (cycles, d[:4]))
    S.note("nontrivial", cycles >= 1)
    S.note("cycles", cycles)


def scenarios(tier):
    parts = []
    base_alpha = ["start_ev", "stop_ev", "start_direct", "stop_direct", "wait", "switch_hit"]
    for mode in ("mplain", "mwait", "mrich", "mcode"):
        alpha = list(base_alpha)
        if mode == "mrich":
            alpha.append("delayed_control")
            alpha.append("timer_pause")
        firsts = [["start_ev"], ["stop_in_starting"], ["start_direct", "restart_from_stopped"]]
        if mode == "mrich":
            firsts.append(["start_ev", "delayed_control", "stop_ev"])
            firsts.append(["start_ev", "timer_pause", "stop_ev"])
        for f in firsts:
            parts.append(dict(mode=mode, reqs=f, n=len(f) + (2 if tier == "quick" else 3), alphabet=alpha))
    for mode in ("mplain", "mwait"):
        parts.append(dict(mode=mode, reqs=["start_other", "start_prio", "start_prio"], n=4 if tier == "quick" else 6, alphabet=base_alpha + ["start_prio"]))
    galpha = ["start_ev", "stop_ev", "start_direct", "stop_direct", "wait"]
    parts.append(dict(mode="mgame", reqs=["start_ev", "game_start", "start_ev", "expect_active"], n=5, alphabet=galpha))
    parts.append(dict(mode="mgame", reqs=["game_start", "start_ev", "expect_active"], n=5 if tier == "quick" else 6, alphabet=galpha + ["game_end"]))
    pb = 80 if tier == "quick" else 400
    return [Scenario("script", setup, body, parts, teardown=teardown, part_budget=pb, per_path_timeout=60)]
