"""C17 Shows run on schedule without drift and clean up after themselves. DESIGN.md section 2/C17."""
from engine.runner import Scenario
from engine.symdrv import Violation
from engine import stubs

ANCHORS = ["mpf/assets/show.py", "mpf/core/show_controller.py", "mpf/config_players/show_player.py", "mpf/config_players/light_player.py",
           "mpf/core/config_player.py", "mpf/devices/light.py"]
FUNCTIONS = ["Show.play/play_with_config", "RunningShow.__init__/_start_play/_start_now/_run_next_step", "RunningShow.stop/pause/resume/advance/step_back/update",
             "ShowController.create_show_config/replace_or_advance_show", "ConfigPlayer.show_play_callback/show_stop_callback/clear_context", "LightPlayer.play/clear_context",
             "CoilPlayer.play/clear_context", "EventPlayer (show events)", "Light stack entries keyed by the show context"]
EXPLANATION = ("Bounded symbolic execution (CrossHair/z3) of the real show engine on a booted machine: a 3-step show (lights with fades, a coil, events) whose step "
               "durations are replaced after load by symbolic reals, played with symbolic speed, loop count, start step and, per partition, sync_ms or control "
               "operations (pause, resume, advance, step back, stop, a replacing show under the same sync window) at symbolic instants, on a loop that runs every "
               "due handle up to 5 ms late (symbolic lateness per handle). Oracle: the start_time handed to the players for the k-th executed step equals the exact "
               "accumulated schedule (no drift), event counts (played, looped, completed, stopped), and after stop/completion no light stack entry, enabled coil or "
               "scheduled handle belongs to the show and every light shows what it showed before.")
NONTRIVIAL_RULE = "at least two steps were executed and compared with the schedule"
BOUNDS = {"quick": {"steps": 3, "durations_s": "(0,2] real", "speed": "[0.25,4] real", "loops": "[-1,2]", "start_step": "[-3,3]", "controls": 1, "lateness": "[0,5 ms] per handle"},
          "thorough": {"steps": 3, "durations_s": "(0,2] real", "speed": "[0.25,4] real", "loops": "[-1,2]", "start_step": "[-3,3]", "controls": 2, "lateness": "[0,5 ms] per handle"}}
ASSUMPTIONS = ["floats are exact reals: 'no drift' is decided on the scheduled instants (start_time arguments), lateness only delays execution",
               "a control operation exactly at a step boundary is assumed away", "an empty config-player instance entry for the finished show context is not flagged (present on the unchanged tree)"]
BUDGET = {"quick": 100, "thorough": 600}


def setup(part):
    return stubs.boot("shows")


def teardown(t):
    stubs.shutdown(t)


def _show_keys(m, ctx):
    out = []
    for light in m.lights.values():
        for e in light.stack:
            if str(e.key).startswith(ctx):
                out.append((light.name, e.key))
    return out


def body(S, t, part):
    m = t.machine
    S.now_symbolic(t.loop)
    show = m.shows["vshow"]
    d = [S.real("d%d" % i, 0, 2, lo_open=True) for i in range(3)]
    for i in range(3):
        S.assume(d[i] >= 0.02)
        show.show_steps[i]['duration'] = d[i]
    speed = S.real("speed", 0.25, 4)
    loops = S.int("loops", -1, 2) if part.get("loops") is None else part["loops"]
    start_step = part.get("start_step", 1)
    if start_step == "sym":
        start_step = S.int("start_step", -3, 3)
    # loop lateness only where no control operation is issued: with controls the order of a late step and the control is the loop's
    # business, not the show's, and the statement's schedule is then relative to the control instant
    lates = [S.real("late%d" % k, 0, 0.005) for k in range(12)] if not part.get("control") else []
    lk = [0]

    def late(handle):
        cb = getattr(handle, "_callback", None)
        if getattr(cb, "__name__", "") == "_run_next_step" and lk[0] < len(lates):
            lk[0] += 1
            return lates[lk[0] - 1]
        return 0.0
    steps = []          # (step index, start_time) as handed to the light player
    lp = m.show_controller.show_players["lights"]
    orig_cb = type(lp).show_play_callback

    def rec(self, **kwargs):
        steps.append((kwargs["calling_context"], kwargs["start_time"], t.loop.time()))
        return orig_cb(self, **kwargs)
    type(lp).show_play_callback = rec
    ev = {"played": 0, "looped": 0, "completed": 0, "stopped": 0, "paused": 0, "resumed": 0}
    for k in ev:
        m.events.add_handler("vs_" + k, lambda _k=k, **kwargs: ev.__setitem__(_k, ev[_k] + 1))
    before = {l.name: (l.get_color().red, l.get_color().green, l.get_color().blue) for l in m.lights.values()}
    try:
        t.loop.late = late
        t0 = t.loop.time()
        rs = show.play(speed=speed, loops=loops, start_step=start_step, sync_ms=0,
                       events_when_advanced=["vs_advanced"], events_when_stepped_back=["vs_stepped_back"],
                       events_when_played=["vs_played"], events_when_looped=["vs_looped"], events_when_completed=["vs_completed"],
                       events_when_stopped=["vs_stopped"], events_when_paused=["vs_paused"], events_when_resumed=["vs_resumed"])
        ctx = rs.context
        # reference schedule
        if start_step > 0:
            idx = start_step - 1
        elif start_step < 0:
            idx = start_step % 3
        else:
            idx = 0
        sched = t0
        expected = []
        ctl = part.get("control")
        horizon = 9.0
        ctl_at = S.real("control_at", 0.01, 4) if ctl else None
        resume_gap = S.real("resume_gap", 0.01, 3) if ctl == "pause_resume" else None
        adv_gaps = [S.real("advance_gap%d" % k, 0.01, 1.5) for k in range(2)] if ctl == "advance_multi" else []
        # ---- run ----
        if ctl:
            t.advance_time_and_run(ctl_at)
            now = t.loop.time()
            if ctl == "stop":
                rs.stop()
            elif ctl == "pause_resume":
                rs.pause()
                t.advance_time_and_run(resume_gap)
                rs.resume()
            elif ctl == "advance":
                rs.advance()
            elif ctl == "advance_multi":
                rs.advance()
                for g in adv_gaps:
                    t.advance_time_and_run(g)
                    rs.advance()
            elif ctl == "step_back":
                rs.step_back()
        t.advance_time_and_run(horizon)
        if not rs.stopped:
            rs.stop()
        t.advance_time_and_run(1)
    finally:
        type(lp).show_play_callback = orig_cb
        t.loop.late = None
    # ---- schedule oracle -------------------------------------------------------------------------
    # replay the statement: step k starts exactly at the previous start + duration/speed; a control resets the base to its own instant
    tcur = t0
    i = idx
    loops_left = loops
    k = 0
    ctl_done = ctl is None or ctl == "stop"
    t_ctl = t0 + ctl_at if ctl else None
    t_res = (t_ctl + resume_gap) if ctl == "pause_resume" else None
    pending_adv = []
    if ctl == "advance_multi":
        pending_adv = [t_ctl, t_ctl + adv_gaps[0], t_ctl + adv_gaps[0] + adv_gaps[1]]
        ctl_done = True
    n_loops = 0
    completed = False
    exp = []
    truncated = False
    while True:
        if k >= 40:
            truncated = True
            break
        # does the control hit before this step's scheduled start?
        if ctl and not ctl_done:
            S.assume(tcur != t_ctl)
            if t_ctl < tcur:
                ctl_done = True
                if ctl == "pause_resume":
                    tcur = t_res                      # the pending step runs at the resume instant
                elif ctl == "advance":
                    tcur = t_ctl                      # the next step runs now
                elif ctl == "step_back":
                    tcur = t_ctl
                    i = i - 2                         # the step before the current one
                    if i < 0:
                        i %= 3
        if pending_adv:
            S.assume(tcur != pending_adv[0])
            if pending_adv[0] < tcur:
                tcur = pending_adv.pop(0)         # this advance makes the next step run now
        if ctl == "stop":
            S.assume(tcur != t_ctl)
            if tcur > t_ctl:
                break
        end_of_run = t0 + (ctl_at or 0) + (resume_gap or 0) + sum(adv_gaps) + horizon
        S.assume(tcur != end_of_run)
        if tcur > end_of_run:
            break
        if i >= 3:
            if loops_left > 0:
                loops_left -= 1
                i = 0
                n_loops += 1
            elif loops_left < 0:
                i = 0
                n_loops += 1
            else:
                completed = True
                if (ctl and not ctl_done and ctl != "stop") or pending_adv:
                    S.assume(False)        # a control operation on a show that has already completed: outside the statement
                break
        exp.append((i, tcur))
        tcur = tcur + d[i] / speed
        i += 1
        k += 1
    got = [(s[0], s[1]) for s in steps]
    if len(got) < len(exp) or any(g[0] != e[0] for g, e in zip(got, exp)):
        raise Violation("steps-executed-in-order", "RunningShow._run_next_step", "executed steps %s, expected %s (control %s)" % ([g[0] for g in got], [e[0] for e in exp], ctl))
    for n, (g, e) in enumerate(zip(got, exp)):
        if g[1] != e[1]:
            raise Violation("step-k-at-exact-schedule-no-drift", "RunningShow._run_next_step" if ctl is None else "RunningShow." + ctl.split("_")[-1],
                            "step #%d (index %d) was given start_time +%s, the schedule says +%s (durations %s, speed %s, control %s at %s)" % (
                                n, g[0], g[1] - t0, e[1] - t0, d, speed, ctl, ctl_at))
    for s_ in steps:
        if s_[2] < s_[1] or s_[2] > s_[1] + 0.0051:
            raise Violation("step-executed-when-scheduled", "RunningShow._run_next_step", "step %d scheduled +%s executed +%s" % (s_[0], s_[1] - t0, s_[2] - t0))
    if not truncated and len(got) > len(exp) + (1 if not completed and ctl != "stop" else 0):
        raise Violation("no-step-after-stop-or-completion", "RunningShow.stop", "%d steps executed, expected %d" % (len(got), len(exp)))
    # ---- events ---------------------------------------------------------------------------------
    if ev["played"] != 1 or ev["stopped"] != 1:
        raise Violation("played-and-stopped-events-once", "RunningShow.stop", "events %s" % ev)
    if completed and ev["completed"] != 1 or (not completed and ev["completed"] != 0):
        raise Violation("completed-event-once-at-the-end", "RunningShow._run_next_step", "completed=%s events %s" % (completed, ev))
    if ev["looped"] != n_loops and (completed or ctl == "advance_multi") and not truncated:
        raise Violation("looped-event-once-per-loop", "RunningShow._run_next_step", "looped events %d, loops done %d" % (ev["looped"], n_loops))
    # ---- cleanup --------------------------------------------------------------------------------
    left = _show_keys(m, ctx)
    if left:
        raise Violation("nothing-of-the-show-left-behind", "ConfigPlayer.show_stop_callback", "light stack entries of the show remain: %s" % left)
    after = {l.name: (l.get_color().red, l.get_color().green, l.get_color().blue) for l in m.lights.values()}
    if after != before:
        raise Violation("devices-as-if-the-show-never-ran", "LightPlayer.clear_context", "lights %s, before the show %s" % (after, before))
    if m.coils["c1"].hw_driver.state == "enabled":
        raise Violation("devices-as-if-the-show-never-ran", "CoilPlayer.clear_context", "coil enabled by the show is still enabled")
    for h in t.loop._scheduled:
        if not h._cancelled and getattr(getattr(h, "_callback", None), "__self__", None) is rs:
            raise Violation("nothing-of-the-show-left-behind", "RunningShow._remove_delay_handler", "a loop handle of the stopped show is still scheduled")
    S.note("nontrivial", len(exp) >= 2)
    S.note("steps", len(exp))


def body_sync(S, t, part):
    """sync_ms: a replaced show keeps running until its replacement starts at the next sync point"""
    m = t.machine
    S.now_symbolic(t.loop)
    sc = m.show_controller
    sync = part["sync_ms"]
    period = sync / 1000.0
    phase = S.real("phase", 0, period)
    t.advance_time_and_run(phase)
    stopped_at = {}
    started_at = {}
    m.events.add_handler("vsA_stopped", lambda **kwargs: stopped_at.setdefault("A", t.loop.time()))
    m.events.add_handler("vsB_played", lambda **kwargs: started_at.setdefault("B", t.loop.time()))
    m.events.add_handler("vsC_played", lambda **kwargs: started_at.setdefault("C", t.loop.time()))
    m.events.add_handler("vsA_played", lambda **kwargs: started_at.setdefault("A", t.loop.time()))
    cfgA = sc.create_show_config("vshow", loops=-1, sync_ms=sync, events_when_played=["vsA_played"], events_when_stopped=["vsA_stopped"])
    cfgB = sc.create_show_config("vshow2", loops=-1, sync_ms=sync, events_when_played=["vsB_played"])
    cfgC = sc.create_show_config("vshow3", loops=-1, sync_ms=sync, events_when_played=["vsC_played"])
    a = sc.replace_or_advance_show(None, cfgA, None)
    t.advance_time_and_run(period + 0.01)
    if "A" not in started_at:
        raise Violation("sync-start", "RunningShow._start_play", "show A did not start within one sync period")
    ta = started_at["A"]
    # u1 < u2 inside one sync window after A's start
    u1 = S.real("u1", 0.001, period)
    u2 = S.real("u2", 0.001, period)
    S.assume(u1 < u2)
    now0 = t.loop.time()
    # the next sync point after now0 (A started on the grid: ta is a multiple of the period in exact arithmetic)
    nxt = ta + period
    k = 0
    while nxt <= now0 and k < 5:
        nxt = nxt + period
        k += 1
    S.assume(now0 + u2 < nxt)
    t.advance_time_and_run(u1)
    b = sc.replace_or_advance_show(a, cfgB, None)
    t.advance_time_and_run(u2 - u1)
    if part.get("abort"):
        # the pending replacement is paused and then stopped before the sync point: the show it was to replace goes with it
        if part["abort"] == "pause_stop":
            b.pause()
        b.stop()
        t.advance_time_and_run(nxt - t.loop.time() + period)
        left = _show_keys(m, a.context) + _show_keys(m, b.context)
        if not a.stopped or left or "A" not in stopped_at:
            raise Violation("nothing-of-the-show-left-behind", "RunningShow.stop", "replacement stopped before its sync point: replaced show stopped=%s (stopped event %s), light entries left %s" % (
                a.stopped, "A" in stopped_at, left))
        if "B" in started_at:
            raise Violation("no-step-after-stop-or-completion", "RunningShow._start_play", "a replacement that was stopped before its sync point started anyway")
        S.note("nontrivial", True)
        S.note("third", "abort")
        return
    c = sc.replace_or_advance_show(b, cfgC, None) if part["third"] else b
    # just before the sync point the running show must still be up
    if a.stopped or "A" in stopped_at:
        raise Violation("replaced-show-runs-until-the-sync-point", "ShowController.replace_or_advance_show", "show A was stopped at +%s, before the sync point +%s where its replacement starts" % (
            stopped_at.get("A", t.loop.time()) - ta, nxt - ta))
    if not _show_keys(m, a.context):
        raise Violation("replaced-show-runs-until-the-sync-point", "RunningShow.stop", "the running show's lights are gone before the sync point")
    t.advance_time_and_run(nxt - t.loop.time() + 0.01)
    last = "C" if part["third"] else "B"
    if last not in started_at:
        raise Violation("sync-start", "RunningShow._start_play", "replacement %s did not start at the sync point" % last)
    if started_at[last] != nxt:
        raise Violation("sync-start", "RunningShow._start_play", "replacement started at +%s, sync point +%s" % (started_at[last] - ta, nxt - ta))
    if stopped_at.get("A") != nxt:
        raise Violation("stopped-event-at-the-right-moment", "RunningShow.stop", "show A stopped at %s, sync point +%s" % (stopped_at.get("A"), nxt - ta))
    # (a pending show that is itself replaced may start and be stopped within the same instant at the sync point: not flagged)
    for x in (a, b, c):
        if x is not (c if part["third"] else b):
            if _show_keys(m, x.context):
                raise Violation("nothing-of-the-show-left-behind", "RunningShow.stop", "light entries of a replaced show remain")
    (c if part["third"] else b).stop()
    t.advance_time_and_run(0.1)
    S.note("nontrivial", True)
    S.note("third", part["third"])


def body_player(S, t, part):
    """a show started by a mode's show_player runs at mode priority + configured priority on every play, whatever ran before;
    stopping it leaves the light as if it had never run"""
    m = t.machine
    l1 = m.lights["l1"]
    prio = S.int("competing_priority", 0, 400)
    S.assume(prio != 103)
    m.events.post("start_sm")
    t.advance_time_and_run(0.1)
    if not m.modes["sm"].active:
        raise Violation("harness", "start_sm", "mode sm did not start")
    l1.color([0, 128, 0], priority=prio, key="competitor")
    t.advance_time_and_run(0.05)

    def colour():
        c = l1.get_color()
        return (c.red, c.green, c.blue)
    for k in range(part["plays"]):
        m.events.post("sm_play")
        t.advance_time_and_run(0.5)          # inside step 0 of vshow3 (l1 blue for 1 s)
        want = (0, 0, 255) if prio < 103 else (0, 128, 0)
        if colour() != want:
            raise Violation("show-runs-at-its-configured-priority", "ShowPlayer.play", "play %d: l1 is %s, expected %s (show at 100+3, competing entry at %s); stack %s" % (
                k + 1, colour(), want, prio, [(e.key, e.priority) for e in l1.stack]))
        m.events.post("sm_stop")
        t.advance_time_and_run(0.1)
        if colour() != (0, 128, 0):
            raise Violation("effects-removed-when-show-stops", "ShowPlayer._stop", "after stop %d: l1 is %s, expected the competing entry's (0, 128, 0); stack %s" % (
                k + 1, colour(), [(e.key, e.priority) for e in l1.stack]))
    m.events.post("stop_sm")
    t.advance_time_and_run(0.2)
    l1.remove_from_stack_by_key("competitor")
    t.advance_time_and_run(0.1)
    if colour() != (0, 0, 0) or l1.stack:
        raise Violation("effects-removed-when-show-stops", "RunningShow.stop", "after everything was removed l1 is %s, stack %s" % (colour(), [(e.key, e.priority) for e in l1.stack]))
    S.note("nontrivial", True)
    S.note("above", bool(prio > 103))


def scenarios(tier):
    parts = [dict(control=None, loops=None, start_step="sym"), dict(control=None, loops=1, start_step=1), dict(control="stop", loops=-1, start_step=1),
             dict(control="pause_resume", loops=1, start_step=1), dict(control="advance", loops=1, start_step=1), dict(control="step_back", loops=1, start_step=1),
             dict(control="pause_resume", loops=-1, start_step=2), dict(control="stop", loops=0, start_step="sym"),
             dict(control="advance_multi", loops=-1, start_step=1), dict(control="advance_multi", loops=2, start_step="sym")]
    if tier != "quick":
        parts += [dict(control=c, loops=None, start_step="sym") for c in ("stop", "pause_resume", "advance", "step_back")]
    pb = 80 if tier == "quick" else 400
    sparts = [dict(sync_ms=500, third=True), dict(sync_ms=500, third=False), dict(sync_ms=250, third=True),
              dict(sync_ms=500, third=False, abort="pause_stop"), dict(sync_ms=500, third=False, abort="stop")]
    return [Scenario("schedule", setup, body, parts, teardown=teardown, part_budget=pb, per_path_timeout=60),
            Scenario("sync", setup, body_sync, sparts, teardown=teardown, part_budget=pb, per_path_timeout=60),
            Scenario("show_player", setup, body_player, [dict(plays=2 if tier == "quick" else 4)], teardown=teardown, part_budget=pb, per_path_timeout=60)]
