"""C12 Config validation returns well-typed complete configs or rejects. DESIGN.md section 2/C12."""
import copy

from engine.runner import Scenario
from engine.symdrv import Violation
from engine import stubs

ANCHORS = ["mpf/core/config_validator.py", "mpf/core/utility_functions.py", "mpf/config_spec.yaml",
           "mpf/core/config_spec_loader.py"]
FUNCTIONS = ["ConfigValidator.validate_config/_validate_config", "ConfigValidator.validate_config_item",
             "ConfigValidator.validate_item", "ConfigValidator._validate_dict", "ConfigValidator.check_for_invalid_sections",
             "ConfigValidator.build_spec", "ConfigValidator._validate_type_* (int,float,num,bool,ms,secs,str,lstr,enum,pow2,"
             "bool_int,int_from_hex,list,dict,machine,*_or_token)", "ConfigValidator._validate_range_min_smaller_max",
             "Util.string_to_ms", "Util.string_to_secs", "Util.string_to_list", "Util.is_power2", "Util.hex_string_to_int"]
EXPLANATION = ("Bounded symbolic execution (CrossHair/z3) of the real validator functions on a booted machine: (time) "
               "str(n)+suffix and a.b+suffix with n,a,b solver variables through string_to_ms/secs and the ms/secs validators; "
               "(range) every `type(min,max)` validator occurring in the processed config_spec with a symbolic item; (types) every "
               "scalar validator with a symbolic item of kind int/real/bool/None/corpus string; (sections) every section of the spec: "
               "solver-chosen provided key, optional unknown key, add_missing_keys: all keys present, provided kept, unknown rejected, spec unchanged.")
NONTRIVIAL_RULE = "the validator returned a value that was checked against the declared type/range, or raised (rejection), for a non-default input"
BOUNDS = {"quick": {"numbers": "corpus of 6 integers and 5 one-decimal numbers x every suffix x every case spelling", "item": "int in [min-3,max+3] (default [-3,20]), reals on the grid of halves over the same interval, str(int), bool, None, 19-string corpus", "sections": "first 60 sections of the spec"},
          "thorough": {"numbers": "corpus of 6 integers and 5 one-decimal numbers x every suffix x every case spelling", "item": "int in [min-3,max+3] (default [-3,20]), reals on the grid of halves over the same interval, str(int), bool, None, 19-string corpus", "sections": "all sections"}}
ASSUMPTIONS = ["inputs are Python values 'as YAML would deliver them' (ruamel itself is C/regex code and is not executed symbolically)",
               "ConfigValidator.validation_error is replaced by a stub that builds the error without formatting the offending value (formatting realises symbolic values; any exception counts as rejection)",
               "string items come from a concrete corpus chosen by the solver, numeric items are genuinely symbolic",
               "keys beginning with '_' are outside the unknown-key clause (the validator documents them as ignored)",
               "IEEE rounding of decimal time strings (e.g. 0.57s) is outside: floats are reals"]
BUDGET = {"quick": 110, "thorough": 600}

UNITS = [("ms", 1), ("msec", 1), ("s", 1000), ("sec", 1000), ("m", 60000), ("h", 3600000), ("d", 86400000), ("", 1)]


class Rejected(Exception):
    pass


def _stub_error(cv):
    from mpf.core.config_validator import ConfigValidator
    ConfigValidator.validation_error = lambda self, item, info, msg="", code=None: Rejected(str(code))


def setup(part):
    t = stubs.boot("switches")
    _stub_error(t.machine.config_validator)
    return t


def teardown(t):
    stubs.shutdown(t)


def _case(S, s, name):
    """every upper/lower-case spelling of the suffix (one solver bool per character)"""
    return "".join(c.upper() if S.bool("%s_up%d" % (name, i)) else c for i, c in enumerate(s))


INTS = ["0", "1", "10", "250", "100000", "007"]
DECS = [("1.5", 15), ("0.5", 5), ("2.0", 20), ("10.5", 105), ("0.1", 1)]


def body_time(S, t, part):
    from mpf.core.utility_functions import Util
    cv = t.machine.config_validator
    suffix, unit = UNITS[part["unit"]]
    sfx = _case(S, suffix, "case") if suffix else ""
    if part["form"] == "int":
        num = INTS[S.choice("num", len(INTS))]
        n = int(num)
        text = num + sfx
        want_ms = n * unit
    else:
        num, tenths = DECS[S.choice("num", len(DECS))]
        text = num + sfx
        want_ms = tenths * unit // 10
    for name, fn in (("Util.string_to_ms", lambda: Util.string_to_ms(text)),
                     ("validator ms", lambda: cv.validate_item(text, "ms", None))):
        try:
            got = fn()
        except Exception as e:  # pylint: disable=broad-except
            raise Violation("time-string-value-times-unit", name, "%r rejected with %s but suffix %r is an accepted unit" % (text, type(e).__name__, suffix))
        if got != want_ms or not isinstance(got, int):
            raise Violation("time-string-value-times-unit", name, "%r -> %r, expected %r ms" % (text, got, want_ms))
    # seconds: no suffix means seconds
    want_s = want_ms / 1000.0 if suffix else (n if part["form"] == "int" else tenths / 10.0)
    if want_s is not None:
        try:
            got = cv.validate_item(text, "secs", None)
        except Exception as e:  # pylint: disable=broad-except
            raise Violation("time-string-value-times-unit", "validator secs", "%r rejected with %s" % (text, type(e).__name__))
        if got != want_s:
            raise Violation("time-string-value-times-unit", "Util.string_to_secs", "%r -> %r s, expected %r" % (text, got, want_s))
    S.note("nontrivial", True)
    S.note("suffix", sfx)


CORPUS = ["", "none", "None", "true", "no", "on", "1", "-1", "0x1f", "ff", "1s", "1.5", "abc", "a, b", "(tok)", "nan", "8", "1e3", " "]

TYPES = {
    "str": (str,), "lstr": (str,), "float": (float,), "int": (int,), "num": (int, float), "bool": (bool,), "boolean": (bool,),
    "ms": (int,), "secs": (float, int), "int_from_hex": (int,), "bool_int": (int,), "pow2": (int,), "gain": (float,),
    "list": (list,), "dict": (dict,), "event_posted": (str,), "event_handler": (str,),
}


def _item(S, name, lo=-3, hi=20):
    k = S.choice(name + "_kind", 6)
    if k == 0:
        return S.int(name + "_int", lo, hi), "int"
    if k == 1:
        # validators format the offending value into their message, which realises a real: a finite grid of halves
        return S.int(name + "_halves", 2 * lo, 2 * hi) / 2.0, "real"
    if k == 2:
        return bool(S.bool(name + "_bool")), "bool"
    if k == 3:
        return None, "none"
    if k == 4:
        return str(S.int(name + "_strint", lo, lo + 8)), "strint"
    return CORPUS[S.choice(name + "_corpus", len(CORPUS))], "corpus"


def _check_typed(S, validator, param, item, kind, got, clause_site):
    from mpf.core.config_validator import RuntimeToken
    base = validator[:-9] if validator.endswith("_or_token") else validator
    if got is None:
        return          # "None" / missing value: the spec default None is a legal outcome for every scalar validator
    if validator.endswith("_or_token") and isinstance(got, RuntimeToken):
        return
    allowed = TYPES[base]
    ok = isinstance(got, allowed)          # bool is an int: not flagged
    if not ok:
        raise Violation("well-typed-result", clause_site, "%s(%s) on %r (%s) returned %r of type %s" % (validator, param, item, kind, got, type(got).__name__))
    if base == "pow2" and (got <= 0 or got & (got - 1)):
        raise Violation("well-typed-result", clause_site, "pow2 returned %r" % (got,))
    if base == "bool_int" and got not in (0, 1):
        raise Violation("well-typed-result", clause_site, "bool_int returned %r" % (got,))
    if param:
        lo, hi = param.split(",")
        if lo != "NONE" and not got >= float(lo):
            raise Violation("range-enforced", "_validate_range_min_smaller_max", "%s(%s) on %r returned %r (below min or unordered)" % (validator, param, item, got))
        if hi != "NONE" and not got <= float(hi):
            raise Violation("range-enforced", "_validate_range_min_smaller_max", "%s(%s) on %r returned %r (above max or unordered)" % (validator, param, item, got))


def body_validator(S, t, part):
    cv = t.machine.config_validator
    validator, param = part["validator"], part.get("param")
    lo, hi = -3, 20
    if param:
        a, b = param.split(",")
        lo = (int(float(a)) if a != "NONE" else 0) - 3
        hi = (int(float(b)) if b != "NONE" else 60) + 3
    item, kind = _item(S, "item", lo, hi)
    spec_before = copy.deepcopy(cv.config_spec.get("switches"))
    vstr = "%s(%s)" % (validator, param) if param else validator
    try:
        got = cv.validate_item(item, vstr, None)
    except Exception:  # pylint: disable=broad-except
        S.note("nontrivial", True)
        S.note("outcome", "rejected:" + kind)
        return
    _check_typed(S, validator, param, item, kind, got, "_validate_type_" + (validator[:-9] if validator.endswith("_or_token") else validator))
    if cv.config_spec.get("switches") != spec_before:
        raise Violation("spec-not-modified", "validate_item", "spec changed")
    S.note("nontrivial", True)
    S.note("outcome", "accepted:" + kind)


def _sections(t):
    cv = t.machine.config_validator
    out = []
    for name in sorted(cv.config_spec):
        sec = cv.config_spec[name]
        if not isinstance(sec, dict) or name.startswith("_"):
            continue
        keys = [k for k, v in sec.items() if isinstance(v, list) and len(v) == 3 and not k.startswith("_")]
        if keys:
            out.append(name)
    return out


SAFE_VALUE = {"int": 1, "float": 0.5, "bool": True, "str": "x", "ms": "20ms", "secs": "2s", "num": 3, "lstr": "X",
              "event_posted": "ev_a", "event_handler": "ev_a", "boolean": False}


def body_section(S, t, part):
    """One section: a solver-chosen key is provided, optionally an unknown key; everything else defaulted."""
    cv = t.machine.config_validator
    names = _sections(t)
    lo, hi = part["range"]
    names = names[lo:hi]
    sec_i = S.choice("section", len(names))
    name = names[sec_i]
    spec = cv.config_spec[name]
    before = copy.deepcopy(spec)
    keys = sorted(k for k, v in spec.items() if isinstance(v, list) and len(v) == 3 and not k.startswith("_"))
    simple = [k for k in keys if spec[k][0] == "single" and spec[k][1] in SAFE_VALUE]
    source = {}
    provided = None
    if simple and S.bool("provide"):
        provided = simple[S.choice("key", len(simple))]
        source[provided] = SAFE_VALUE[spec[provided][1]]
    unknown = S.bool("unknown")
    if unknown:
        source["zz_not_a_setting"] = 1
    try:
        res = cv.validate_config(name, source, name)
    except Exception as e:  # pylint: disable=broad-except
        required = [k for k in keys if spec[k][2] == "" and k not in source]
        if unknown or required:
            S.note("nontrivial", True)
            S.note("outcome", "rejected")
            if cv.config_spec[name] != before:
                raise Violation("spec-not-modified", "_validate_config", "spec of %s changed by a rejected validation" % name)
            return
        # defaults of some sections refer to devices that do not exist in this machine etc.: a rejection is a legal outcome
        S.note("outcome", "rejected-default:" + type(e).__name__)
        return
    if unknown and "__allow_others__" not in spec:
        raise Violation("unknown-key-rejected", "check_for_invalid_sections", "section %s silently accepted key zz_not_a_setting" % name)
    for k in keys:
        if spec[k] == "ignore":
            continue
        if k not in res:
            raise Violation("all-spec-keys-present", "_validate_config", "section %s: key %s missing from validated config" % (name, k))
    if provided is not None:
        v = res[provided]
        want = {"int": 1, "float": 0.5, "bool": True, "str": "x", "ms": 20, "secs": 2.0, "num": 3, "lstr": "x",
                "event_posted": "ev_a", "event_handler": "ev_a", "boolean": False}[spec[provided][1]]
        if v != want or type(v) is not type(want):
            raise Violation("provided-key-kept", "validate_config_item", "section %s key %s: provided %r came back as %r" % (name, provided, source.get(provided), v))
    if cv.config_spec[name] != before:
        raise Violation("spec-not-modified", "_validate_config", "spec of %s changed" % name)
    S.note("nontrivial", True)
    S.note("outcome", "accepted")


def _enum_params():
    import re
    import os
    from engine.symdrv import REPO
    txt = open(os.path.join(REPO, "mpf/config_spec.yaml")).read()
    return sorted(set(re.findall(r"\|enum\(([^)]*)\)\|", txt)))


def body_enum(S, t, part):
    """every enum(...) of the spec: members are accepted and returned, near-misses (substrings, joined members, '', ',') are rejected"""
    cv = t.machine.config_validator
    params = _enum_params()[part["range"][0]:part["range"][1]]
    param = params[S.choice("enum", len(params))]
    members = param.split(",")
    allowed = set(x.lower() for x in members)
    cands = list(members)
    first = members[0]
    cands += [first[:-1], first[1:], first + ",", ",", "", " ", ",".join(members[:2]), first.upper(), first + "x", "x" + first]
    if len(members) > 1:
        cands += [members[1][:-1], members[-1][:2]]
    cands += [True, False, 0, 1, None]
    item = cands[S.choice("candidate", len(cands))]
    try:
        got = cv.validate_item(item, "enum(%s)" % param, None)
    except Exception:  # pylint: disable=broad-except
        if isinstance(item, str) and item.lower() in allowed and item.lower() != "none":
            raise Violation("enum-member-accepted", "_validate_type_enum", "enum(%s) rejected its member %r" % (param, item))
        S.note("nontrivial", True)
        S.note("outcome", "rejected")
        return
    if got is None:
        if "none" not in allowed and item is not None and not (isinstance(item, str) and item.lower() == "none"):
            raise Violation("enums-restricted", "_validate_type_enum", "enum(%s) on %r returned None" % (param, item))
    elif not isinstance(got, str) or got not in allowed:
        raise Violation("enums-restricted", "_validate_type_enum", "enum(%s) on %r returned %r which is not a member" % (param, item, got))
    S.note("nontrivial", True)
    S.note("outcome", "accepted")


def _subconfigs(t):
    """(section, key, item_type, validator) for every spec entry that nests a sub-section"""
    cv = t.machine.config_validator
    out = []
    for name in sorted(cv.config_spec):
        sec = cv.config_spec[name]
        if not isinstance(sec, dict) or name.startswith("_"):
            continue
        for k, v in sorted(sec.items()):
            if isinstance(v, list) and len(v) == 3 and "subconfig(" in v[1]:
                out.append((name, k, v[0], v[1]))
            elif isinstance(v, dict) and not k.startswith("_"):
                out.append((name, k, "listofdicts", ""))
    return out


def body_nested(S, t, part):
    """an unknown key inside a nested sub-section must be rejected just like one at the top level"""
    cv = t.machine.config_validator
    subs = _subconfigs(t)[part["range"][0]:part["range"][1]]
    if not subs:
        S.assume(False)
    name, key, item_type, validator = subs[S.choice("occurrence", len(subs))]
    bad = {"zz_not_a_setting": 1}
    if item_type == "single":
        src = {key: bad}
    elif item_type in ("list", "listofdicts"):
        src = {key: [bad]}
    elif item_type == "dict":
        kt = validator.split(":")[0]
        src = {key: {(1 if kt == "int" else "k1"): bad}}
    else:
        S.assume(False)
    # the sub-section may allow arbitrary keys
    target = validator.split("subconfig(")[1].split(")")[0].split(",")[0] if "subconfig(" in validator else name + ":" + key
    spec = cv.config_spec
    for piece in target.split(":"):
        spec = spec.get(piece, {}) if isinstance(spec, dict) else {}
    allow_others = isinstance(spec, dict) and "__allow_others__" in spec
    try:
        cv.validate_config(name, src, name)
    except Exception:  # pylint: disable=broad-except
        S.note("nontrivial", True)
        S.note("outcome", "rejected")
        return
    if not allow_others:
        raise Violation("unknown-key-rejected", "check_for_invalid_sections", "section %s: unknown key inside nested %s (%s) was silently accepted" % (name, key, validator or "list of dicts"))
    S.note("outcome", "accepted-allow-others")


CONTAINER_SPECS = [("list", "int"), ("list", "ms"), ("list", "str"), ("set", "int"), ("set", "str"), ("list", "float"), ("single", "list")]
CONTAINER_ITEMS = [0, 0.0, False, 5, "0", "7", "1, 2", "1 2", [0], [0, 3], [], "", None, True, 1.5, "a"]


def body_containers(S, t, part):
    """list/set settings: a provided scalar (also a falsy one: 0, 0.0, False) is one element and is never dropped; lists keep every element"""
    cv = t.machine.config_validator
    from mpf.core.config_validator import ValidationPath
    item_type, validation = CONTAINER_SPECS[part["spec"]]
    item = CONTAINER_ITEMS[S.choice("item", len(CONTAINER_ITEMS))]
    default_none = bool(S.bool("default_none"))
    spec = [item_type, validation, "None" if default_none else ""]
    try:
        got = cv.validate_config_item(spec, ValidationPath(None, "verif:item"), item)
    except Exception:  # pylint: disable=broad-except
        S.note("nontrivial", True)
        S.note("outcome", "rejected")
        return
    if isinstance(item, list):
        provided = len(item)
    elif isinstance(item, str):
        # how a string is split (commas, blanks) depends on the list kind: only "something provided is not dropped" is checked
        if item.strip() and (len(got) if isinstance(got, (list, set, tuple)) else 1) < 1:
            raise Violation("provided-value-never-dropped", "Util.string_to_list", "%s|%s on %r returned %r" % (item_type, validation, item, got))
        S.note("nontrivial", True)
        S.note("outcome", "accepted-string")
        return
    elif item is None:
        provided = 0
    else:
        provided = 1                    # a bare scalar, whatever its truth value
    if item_type == "single":
        n = len(got) if isinstance(got, (list, set, tuple)) else -1
    else:
        if not isinstance(got, (list, set)):
            raise Violation("lists-and-sets-normalised", "validate_config_item", "%s|%s on %r returned %r (%s)" % (item_type, validation, item, got, type(got).__name__))
        n = len(got)
    distinct = provided if item_type != "set" or not isinstance(item, list) else len(set(item))
    if n != distinct and n != -1:
        raise Violation("provided-value-never-dropped", "Util.string_to_list", "%s|%s on %r returned %r: %d element(s) provided, %d kept" % (item_type, validation, item, got, provided, n))
    S.note("nontrivial", True)
    S.note("outcome", "accepted")


def body_shared_defaults(S, t, part):
    """defaults filled in are fresh objects: changing the validated config of one device must not leak into the next validation or the spec"""
    cv = t.machine.config_validator
    names = _sections(t)[part["range"][0]:part["range"][1]]
    name = names[S.choice("section", len(names))]
    use_base = bool(S.bool("with_device_base_spec"))
    # All inputs are native values from here on (section and base spec were chosen by forking). CrossHair bypasses functools.lru_cache
    # while tracing, which would hide exactly the state this scenario is about (the cached spec object), so the stretch runs untraced.
    with S.untraced():
        _shared_defaults(S, cv, name, "device" if use_base else None)


def _shared_defaults(S, cv, name, base):
    cached = getattr(type(cv), "build_spec", None)
    if hasattr(cached, "cache_clear"):
        cached.cache_clear()            # every path is a fresh process: no spec object cached by an earlier path
    spec = cv.config_spec[name]
    before = copy.deepcopy(spec)
    try:
        built_before = copy.deepcopy(cv.build_spec(name, base))
    except Exception:  # pylint: disable=broad-except
        S.note("outcome", "no-spec")
        return
    # required keys get a harmless value
    src = {}
    for k, v in built_before.items():
        if isinstance(v, list) and len(v) == 3 and v[2] == "" and v[0] == "single" and v[1] in SAFE_VALUE:
            src[k] = SAFE_VALUE[v[1]]

    def validate():
        return cv.validate_config(name, dict(src), name, base_spec=base)
    try:
        first = validate()
    except Exception:  # pylint: disable=broad-except
        S.note("outcome", "rejected")
        return
    pristine = {k: (dict(v) if isinstance(v, dict) else list(v) if isinstance(v, list) else set(v) if isinstance(v, set) else v) for k, v in first.items()}
    touched = 0
    for k, v in first.items():
        if isinstance(v, dict):
            v["zz_verif"] = 1
            touched += 1
        elif isinstance(v, list):
            v.append("zz_verif")
            touched += 1
        elif isinstance(v, set):
            v.add("zz_verif")
            touched += 1
    second = validate()
    if cv.build_spec(name, base) != built_before:
        raise Violation("spec-not-modified", "_validate_config", "the spec built for %s (base %s) changed after validating a config" % (name, base))
    for k, v in second.items():
        if v != pristine.get(k) and isinstance(v, (dict, list, set)):
            raise Violation("defaults-filled-in", "_validate_config", "section %s key %s: second validation returned %r, the first %r (default object shared between configs)" % (name, k, v, pristine.get(k)))
    if cv.config_spec[name] != before:
        raise Violation("spec-not-modified", "_validate_config", "spec of %s changed after the caller modified a validated config" % name)
    S.note("nontrivial", touched > 0)
    S.note("outcome", "accepted")


def _range_validators():
    """all `type(min,max)` occurrences with numeric types from the spec file (re-read on every run)."""
    import re
    import os
    from engine.symdrv import REPO
    txt = open(os.path.join(REPO, "mpf/config_spec.yaml")).read()
    found = set(re.findall(r"\|((?:int|float|num|int_or_token|float_or_token|num_or_token)\(([^)]*)\))\|", txt))
    return sorted((v.split("(")[0], p) for v, p in found)


def scenarios(tier):
    time_parts = [dict(unit=i, form="int") for i in range(len(UNITS))] + [dict(unit=i, form="dec") for i in (2, 3, 4, 5, 6)]
    val_parts = [dict(validator=v, param=p) for v, p in _range_validators()]
    val_parts += [dict(validator=v) for v in ("int", "float", "num", "bool", "ms", "secs", "str", "lstr", "pow2", "bool_int",
                                               "int_from_hex", "int_or_token", "float_or_token", "bool_or_token", "ms_or_token")]
    n_sec = 60 if tier == "quick" else 400
    sec_parts = [dict(range=[i, i + 10]) for i in range(0, n_sec, 10)]
    pb = 60 if tier == "quick" else 240
    ne = len(_enum_params())
    enum_parts = [dict(range=[i, i + 12]) for i in range(0, ne, 12)]
    nested_parts = [dict(range=[i, i + 15]) for i in range(0, 90, 15)]
    return [Scenario("time", setup, body_time, time_parts, teardown=teardown, part_budget=pb, per_path_timeout=30),
            Scenario("validator", setup, body_validator, val_parts, teardown=teardown, part_budget=pb, per_path_timeout=30),
            Scenario("enum", setup, body_enum, enum_parts, teardown=teardown, part_budget=pb, per_path_timeout=30),
            Scenario("nested", setup, body_nested, nested_parts, teardown=teardown, part_budget=pb, per_path_timeout=30, min_nontrivial=0),
            Scenario("containers", setup, body_containers, [dict(spec=i) for i in range(len(CONTAINER_SPECS))], teardown=teardown, part_budget=pb, per_path_timeout=30),
            Scenario("shared_defaults", setup, body_shared_defaults, [dict(range=[i, i + 20]) for i in range(0, n_sec, 20)], teardown=teardown, part_budget=pb, per_path_timeout=30, min_nontrivial=0),
            Scenario("section", setup, body_section, sec_parts, teardown=teardown, part_budget=pb, per_path_timeout=30, min_nontrivial=0)]
