"""C14 Serial links: framing, integrity and command flow control. DESIGN.md section 2/C14."""
import asyncio
import logging
import time

from engine.runner import Scenario
from engine.symdrv import Violation
from engine import stubs, symloop

ANCHORS = ["mpf/platforms/fast/communicators/base.py", "mpf/platforms/opp/opp_serial_communicator.py", "mpf/platforms/opp/opp.py",
           "mpf/platforms/opp/opp_rs232_intf.py", "mpf/platforms/pkone/pkone_serial_communicator.py"]
FUNCTIONS = ["OPPSerialCommunicator._parse_msg", "OppHardwarePlatform.read_gen2_inp_resp/_bad_crc", "OppRs232Intf.calc_crc8_part_msg/calc_crc8_whole_msg (E2: AST -> z3)",
             "FastSerialCommunicator.parse_incoming_raw_bytes/_dispatch_incoming_msg", "FastSerialCommunicator._socket_writer/pause_sending/_resume_sending/send_with_confirmation/send_and_forget",
             "PKONESerialCommunicator._parse_msg"]
EXPLANATION = ("(opp_split) E1: the real OPP frame parser on 8 fully symbolic bytes followed by a fixed flush suffix, fed whole and split at a symbolic cut: the "
               "frames handed to the platform must be equal. (opp_resync) a valid frame, up to 3 symbolic noise bytes, three valid frames: the last one is decoded. "
               "(opp_integrity) the real input handler with the CRC function replaced by a symbolic verdict and symbolic old/new input bits: a bad CRC changes nothing, a good "
               "one leaves every switch at the reported bit. (crc, E2) the CRC-8 routine translated from its AST into z3 bit-vectors: equal to the bitwise reference CRC-8 "
               "(poly 0x07, init 0xFF) for 6- and 10-byte messages and any single-byte change alters the CRC (unsat). (fast_split/pkone_split) delimiter parsers on corpus "
               "streams with two symbolic cut points. (fast_flow) the real writer task with three queued commands and symbolic response latencies.")
NONTRIVIAL_RULE = "at least one frame/message was decoded and compared (E1) / the query was discharged unsat with the translator validated on vectors (E2)"
BOUNDS = {"quick": {"opp_stream": "8 symbolic bytes + suffix, 1 cut", "noise": "<=3 symbolic bytes", "input_bits": "3 symbolic bits per report, 2 reports", "crc_lengths": [6, 10],
                    "fast/pkone streams": "corpus of 3, 2 cuts", "fast_flow": "3 commands, latencies [0.001,2] s real"},
          "thorough": {"opp_stream": "10 symbolic bytes + suffix, 2 cuts", "noise": "<=3", "crc_lengths": [6, 10]}}
ASSUMPTIONS = ["OPP internal buffers may differ between feedings (they do, harmlessly): only the frames handed on are compared, after a common flush suffix",
               "FAST/PKONE parsers call bytes.decode() (C): their streams are corpus streams, only the cut positions are symbolic",
               "CRC function replaced by a symbolic verdict in opp_integrity; the CRC routine itself is decided by E2", "other platforms (Lisy, P-ROC, Spike) not covered"]
BUDGET = {"quick": 100, "thorough": 600}

VALID = bytes([0x20, 0x08, 0x00, 0x00, 0x00, 0x01])


def _crc(b):
    from mpf.platforms.opp.opp_rs232_intf import OppRs232Intf
    return OppRs232Intf.calc_crc8_whole_msg(b)


def _frame(d):
    body = bytes([0x20, 0x08, 0, 0, 0, d])
    return body + _crc(body)


def setup(part):
    stubs.shims()
    return symloop.new_loop()


def teardown(loop):
    try:
        loop._ready.clear()
        loop._scheduled.clear()
        loop.close()
    except Exception:  # pylint: disable=broad-except
        pass


class _Plat:
    def __init__(self):
        self.msgs = []

    def process_received_message(self, chain, msg):
        self.msgs.append(bytes(msg))


def _opp():
    from mpf.platforms.opp.opp_serial_communicator import OPPSerialCommunicator
    c = OPPSerialCommunicator.__new__(OPPSerialCommunicator)
    c.part_msg = b''
    c._lost_synch = False
    c.chain_serial = "0"
    c.platform = _Plat()
    return c


def body_opp_split(S, loop, part):
    n = part["n"]
    data = S.bytes("stream", n)
    suffix = bytes([0xff, 0xff, 0xff]) + _frame(0x55) + _frame(0x66) + bytes([0xff, 0xff, 0xff])
    cut = part["cut"] if "cut" in part else S.int("cut", 0, n)
    a = _opp()
    a._parse_msg(data + suffix)
    b = _opp()
    b._parse_msg(data[:cut])
    if part.get("cuts", 1) == 2:
        cut2 = S.int("cut2", 0, n)
        S.assume(cut <= cut2)
        b._parse_msg(data[cut:cut2])
        b._parse_msg(data[cut2:])
    else:
        b._parse_msg(data[cut:])
    b._parse_msg(suffix)
    if a.platform.msgs != b.platform.msgs:
        raise Violation("decoded-messages-independent-of-read-splitting", "OPPSerialCommunicator._parse_msg", "stream %s cut at %s: whole %s, split %s" % (
            list(data), cut, [list(x) for x in a.platform.msgs], [list(x) for x in b.platform.msgs]))
    S.note("nontrivial", len(a.platform.msgs) >= 1)
    S.note("frames", len(a.platform.msgs))


def body_opp_resync(S, loop, part):
    k = part["noise"]
    noise = S.bytes("noise", k) if k else b""
    c = _opp()
    c._parse_msg(_frame(1) + noise + _frame(2) + _frame(3) + _frame(4) + bytes([0xff, 0xff, 0xff]))
    if not c.platform.msgs or c.platform.msgs[-1] != _frame(4):
        raise Violation("decoder-resynchronises-after-noise", "OPPSerialCommunicator._parse_msg", "noise %s: frames decoded %s, the last valid frame is missing" % (list(noise), [list(x) for x in c.platform.msgs]))
    S.note("nontrivial", True)
    S.note("frames", len(c.platform.msgs))


def body_opp_integrity(S, loop, part):
    from mpf.platforms.opp.opp import OppHardwarePlatform
    from mpf.platforms.opp.opp_rs232_intf import OppRs232Intf
    calls = []

    class SC:
        def process_switch_by_num(self, num, state, platform, logical=False, timestamp=None):
            calls.append((num, state))

    class M:
        switch_controller = SC()

    class Inp:
        chain_serial, card_num, addr = "0", "0", 0x20
    p = OppHardwarePlatform.__new__(OppHardwarePlatform)
    p.machine = M()
    p.log = logging.getLogger("opp")
    p.bad_crc = {"0": 0}
    inp = Inp()
    old_bits = S.int("old_low_bits", 0, 7)
    inp.old_state = 0xFFFFFFF8 | old_bits
    p.inp_addr_dict = {"0-32": inp}
    p.opp_connection = {}
    p._poll_response_received = {"0": asyncio.Event()}
    orig = OppRs232Intf.calc_crc8_part_msg
    state = {i: None for i in range(3)}
    cur_hw = inp.old_state
    try:
        for r in range(part["reports"]):
            bits = S.int("bits%d" % r, 0, 7)
            crc_expected = 0x5A          # the stub's verdict: the frame is good iff its (symbolic) CRC byte equals this constant
            crc_in_msg = S.int("crc_in_msg%d" % r, 0, 255)
            OppRs232Intf.calc_crc8_part_msg = staticmethod(lambda msg, s, n: b"\x5a")
            msg = [0x20, 0x08, 0xFF, 0xFF, 0xFF, 0xF8 | bits, crc_in_msg]
            n0 = len(calls)
            old_before = inp.old_state
            p.read_gen2_inp_resp("0", msg)
            good = crc_in_msg == crc_expected
            if not good:
                if len(calls) != n0 or inp.old_state != old_before:
                    raise Violation("bad-checksum-never-changes-a-switch", "OppHardwarePlatform.read_gen2_inp_resp", "report %d with a wrong CRC: calls %s, old_state %x -> %x" % (
                        r, calls[n0:], old_before, inp.old_state))
            else:
                cur_hw = 0xFFFFFFF8 | bits
                for num, st in calls[n0:]:
                    idx = int(num.split("-")[-1])
                    state[idx] = st
        # after the reports every switch that ever changed is at the bit of the last valid report (active low)
        for idx in range(3):
            want = 0 if (cur_hw >> idx) & 1 else 1
            have = state[idx]
            if have is None:
                have = 0 if ((0xFFFFFFF8 | old_bits) >> idx) & 1 else 1
            if have != want:
                raise Violation("switch-states-equal-last-valid-report", "OppHardwarePlatform.read_gen2_inp_resp", "input %d is %s, last valid report says %s" % (idx, have, want))
    finally:
        OppRs232Intf.calc_crc8_part_msg = orig
    S.note("nontrivial", True)
    S.note("calls", len(calls))


FAST_STREAMS = [b"WD:P\rSA:0E,2,01\r-L:02\r/L:02\rXX:F\r", b"\r\rID:NET FP-CPU-2000  02.13\r!B:02\r-L:1F\r", b"-L:02\r\xff\xfeL:03\r/L:04\rSL:P\r"]


def _fast():
    from mpf.platforms.fast.communicators.base import FastSerialCommunicator

    class M:
        is_shutting_down = False
    c = FastSerialCommunicator.__new__(FastSerialCommunicator)
    got = []
    procs = {}
    for h in ("WD:", "SA:", "-L:", "/L:", "XX:", "ID:", "!B:", "SL:", "DL:"):
        procs[h] = (lambda m, _h=h: got.append(_h + m))
    for k, v in dict(received_msg=b'', pause_sending_until='', pause_sending_flag=asyncio.Event(), no_response_waiting=asyncio.Event(),
                     done_waiting=asyncio.Event(), ignore_decode_errors=True, message_processors=procs, port_debug=False, machine=M(),
                     log=logging.getLogger("fast")).items():
        setattr(c, k, v)
    return c, got


def _pkone():
    from mpf.platforms.pkone.pkone_serial_communicator import PKONESerialCommunicator
    c = PKONESerialCommunicator.__new__(PKONESerialCommunicator)
    got = []

    class P:
        def process_received_message(self, msg):
            got.append(msg)
    for k, v in dict(received_msg=b'', messages_in_flight=0, max_messages_in_flight=10, read_task=None, send_ready=asyncio.Event(),
                     platform=P(), log=logging.getLogger("pkone")).items():
        setattr(c, k, v)
    return c, got


PKONE_STREAMS = [b"PSA011E1PSA010E0PWDEPCN1EE", b"EEPLB1LE41ABCDEPSA", b"PXX1E2PWDEPYYE"]


def body_delim_split(S, loop, part):
    proto = part["proto"]
    streams = FAST_STREAMS if proto == "fast" else PKONE_STREAMS
    data = streams[part["stream"]]
    n = len(data)
    c1 = S.int("cut1", 0, n)
    c2 = S.int("cut2", 0, n)
    S.assume(c1 <= c2)
    mk = _fast if proto == "fast" else _pkone
    a, got_a = mk()
    feed = (lambda c, b: c.parse_incoming_raw_bytes(b)) if proto == "fast" else (lambda c, b: c._parse_msg(b))
    feed(a, data)
    b, got_b = mk()
    for chunk in (data[:c1], data[c1:c2], data[c2:]):
        feed(b, chunk)
    if got_a != got_b:
        raise Violation("decoded-messages-independent-of-read-splitting", "FastSerialCommunicator.parse_incoming_raw_bytes" if proto == "fast" else "PKONESerialCommunicator._parse_msg",
                        "%s stream %r cut at %s/%s: whole %s, split %s" % (proto, data, c1, c2, got_a, got_b))
    S.note("nontrivial", len(got_a) >= 1)
    S.note("messages", len(got_a))


def body_fast_flow(S, loop, part):
    """nothing is written between the write of a confirmed command and the dispatch of its confirmation; order kept"""
    S.now_symbolic(loop)
    lat1 = S.real("latency1", 0.001, 2)
    lat2 = S.real("latency2", 0.001, 2)
    c, got = _fast()
    writes = []

    class Wr:
        def write(self, b):
            writes.append((loop.time(), b))
    c.writer = Wr()
    c.send_queue = asyncio.Queue()
    c.no_response_waiting.set()
    resp_at = {}

    async def main():
        task = asyncio.ensure_future(c._socket_writer())
        c.send_with_confirmation("DL:01", "DL:")
        c.send_and_forget("XX:02")
        c.send_with_confirmation("SL:03", "SL:")
        await asyncio.sleep(lat1)
        resp_at["DL:"] = loop.time()
        c.parse_incoming_raw_bytes(b"DL:P\r")
        await asyncio.sleep(lat2)
        resp_at["SL:"] = loop.time()
        c.parse_incoming_raw_bytes(b"SL:P\r")
        await asyncio.sleep(3)
        task.cancel()
    loop.run_until_complete(main())
    order = [b for _, b in writes]
    if order != [b"DL:01\r", b"XX:02\r", b"SL:03\r"]:
        raise Violation("queued-commands-keep-their-order", "FastSerialCommunicator._socket_writer", "written %s" % order)
    t_dl = writes[0][0]
    for at, b in writes[1:]:
        if at < resp_at["DL:"]:
            raise Violation("nothing-written-until-confirmation-arrived", "FastSerialCommunicator._socket_writer",
                            "%r written at +%s while the confirmation DL: only arrived at +%s" % (b, at - t_dl, resp_at["DL:"] - t_dl))
    S.note("nontrivial", True)
    S.note("writes", len(writes))


def body_fast_retry(S, loop, part):
    """a lost response is retried as configured and does not block for ever"""
    S.now_symbolic(loop)
    lost = S.int("responses_lost", 0, 3)
    latency = S.real("latency", 0.01, 0.9)
    c, got = _fast()
    writes = []

    class Wr:
        def write(self, b):
            writes.append((loop.time(), b))
            if b == b"ID:\r":
                n = sum(1 for _, x in writes if x == b"ID:\r")
                if n > lost:
                    loop.call_later(latency, lambda: c.parse_incoming_raw_bytes(b"ID:NET FP-CPU-2000 02.13\r"))
    c.writer = Wr()
    c.send_queue = asyncio.Queue()
    c.no_response_waiting.set()
    c.message_processors["ID:"] = lambda m: (got.append("ID:" + m), c.done_processing_msg_response())
    state = {}

    async def main():
        task = asyncio.ensure_future(c._socket_writer())
        t0 = loop.time()
        try:
            await asyncio.wait_for(c.send_and_wait_for_response_processed("ID:", "ID:", timeout=1, max_retries=2), timeout=30)
            state["returned"] = loop.time() - t0
        except asyncio.TimeoutError:
            state["blocked"] = True
        task.cancel()
    loop.run_until_complete(main())
    n_sent = sum(1 for _, x in writes if x == b"ID:\r")
    if state.get("blocked"):
        raise Violation("lost-response-is-retried-not-blocking-for-ever", "FastSerialCommunicator.send_and_wait_for_response_processed",
                        "%d response(s) lost with max_retries=2, timeout=1 s: command written %d time(s) and the caller is still blocked after 30 s" % (lost, n_sent))
    if lost <= 2 and n_sent != lost + 1:
        raise Violation("lost-response-is-retried-as-configured", "FastSerialCommunicator.send_and_wait_for_response_processed", "%d lost, written %d times" % (lost, n_sent))
    S.note("nontrivial", True)
    S.note("lost", lost)


def body_fast_overlap(S, loop, part):
    """two callers use the confirmed-command API at the same time; the first confirmation is slow (possibly slower than the second
    caller's retry timeout) but not lost: the second command stays off the wire until it has arrived, and each is written once"""
    S.now_symbolic(loop)
    lat_a = S.real("latency_a", 0.01, 2.5)
    gap = S.real("gap", 0, 0.5)
    timeout_b = S.real("timeout_b", 0.3, 1.5)
    lat_b = S.real("latency_b", 0.01, 0.5)
    S.assume(gap != lat_a)
    c, got = _fast()
    writes = []
    arrived = {}

    class Wr:
        def write(self, b):
            writes.append((loop.time(), b))
            if b == b"DL:01\r" and "a_written" not in arrived:
                arrived["a_written"] = loop.time()
                loop.call_later(lat_a, lambda: (arrived.__setitem__("DL:", loop.time()), c.parse_incoming_raw_bytes(b"DL:P\r")))
            if b == b"SL:03\r" and "b_written" not in arrived:
                arrived["b_written"] = loop.time()
                loop.call_later(lat_b, lambda: c.parse_incoming_raw_bytes(b"SL:P\r"))
    c.writer = Wr()
    c.send_queue = asyncio.Queue()
    c.no_response_waiting.set()
    for h in ("DL:", "SL:"):
        c.message_processors[h] = (lambda m, _h=h: (got.append(_h + m), c.done_processing_msg_response()))

    async def main():
        task = asyncio.ensure_future(c._socket_writer())
        ta = asyncio.ensure_future(c.send_and_wait_for_response_processed("DL:01", "DL:", timeout=10, max_retries=0))
        await asyncio.sleep(gap)
        tb = asyncio.ensure_future(c.send_and_wait_for_response_processed("SL:03", "SL:", timeout=timeout_b, max_retries=-1))
        await asyncio.sleep(6)
        for x in (task, ta, tb):
            x.cancel()
    loop.run_until_complete(main())
    order = [b for _, b in writes]
    if "DL:" not in arrived:
        raise Violation("harness", "fast_overlap", "first command never written: %s" % order)
    for at, b in writes[1:]:
        if at < arrived["DL:"]:
            raise Violation("nothing-written-until-confirmation-arrived", "FastSerialCommunicator.send_and_wait_for_response_processed",
                            "%r written at +%s while the confirmation of DL:01 only arrived at +%s (second caller's timeout %s)" % (
                                b, at - writes[0][0], arrived["DL:"] - writes[0][0], timeout_b))
    if order != [b"DL:01\r", b"SL:03\r"]:
        raise Violation("queued-commands-keep-their-order", "FastSerialCommunicator.send_and_wait_for_response_processed",
                        "no response was lost, written %s instead of each command once in the order asked" % order)
    S.note("nontrivial", True)
    S.note("b_timed_out_meanwhile", bool(lat_a > gap + timeout_b))


def setup_machine(part):
    return stubs.boot("switches")


def teardown_machine(t):
    stubs.shutdown(t)


def body_fast_reports(S, t, part):
    """After any sequence of valid input reports (full SA: bitmaps and single -L:/ /L: events) MPF's switch states equal the last
    report of each switch. Real FastNetNeuronCommunicator decoding + report processing on a booted machine's real SwitchController."""
    from mpf.platforms.fast.communicators.net_neuron import FastNetNeuronCommunicator
    m = t.machine
    plat = m.default_platform
    watched = {"s_no": 1, "s_timed_ev": 4}
    # FAST numbers its switches with ints: re-key the lookup of the booted (virtual platform) switches accordingly
    for sw in m.switches.values():
        sw.hw_switch.number = int(sw.hw_switch.number)
    m.switch_controller._switch_lookup = {(sw.hw_switch.number, plat): sw for sw in m.switches.values()}
    plat.switches_initialized = True
    plat.hw_switch_data = {}
    plat.new_switch_data = asyncio.Event()
    c = FastNetNeuronCommunicator.__new__(FastNetNeuronCommunicator)
    for k, v in dict(received_msg=b'', pause_sending_until='', pause_sending_flag=asyncio.Event(), no_response_waiting=asyncio.Event(),
                     done_waiting=asyncio.Event(), ignore_decode_errors=True, port_debug=False, machine=m, platform=plat,
                     log=logging.getLogger("fast")).items():
        setattr(c, k, v)
    c.message_processors = {"SA:": c._process_sa, "-L:": c._process_switch_closed, "/L:": c._process_switch_open}
    last = {name: None for name in watched}
    n_reports = 0
    for i in range(part["n"]):
        kind = part["kinds"][i] if i < len(part.get("kinds", [])) else S.choice("report%d" % i, 5)
        if kind == 0:
            bits = {name: (1 if S.bool("sa%d_%s" % (i, name)) else 0) for name in watched}
            byte0 = sum(bits[name] << num for name, num in watched.items())
            data = b"SA:0E,%02X00\r" % byte0
            for name in watched:
                last[name] = bits[name]
        else:
            name = ("s_no", "s_timed_ev")[(kind - 1) // 2]
            closed = (kind - 1) % 2 == 0
            data = b"%sL:%02X\r" % (b"-" if closed else b"/", watched[name])
            last[name] = 1 if closed else 0
        cut = S.int("cut%d" % i, 0, len(data)) if part.get("split") else len(data)
        first, second = S.concrete(data[:cut]), S.concrete(data[cut:])
        with S.untraced():          # all inputs are native values here (the solver chose report kinds, bits and the cut by forking)
            c.parse_incoming_raw_bytes(first)
            c.parse_incoming_raw_bytes(second)
        n_reports += 1
        t.advance_time_and_run(0.01)
        for name in watched:
            if last[name] is not None and m.switches[name].state != last[name]:
                raise Violation("switch-states-equal-last-report", "FastNetNeuronCommunicator._process_sa" if kind == 0 else "FastNetNeuronCommunicator._process_switch_closed",
                                "after report %d %r: %s is %s in MPF, the board's last report says %s" % (i, data, name, m.switches[name].state, last[name]))
    S.note("nontrivial", n_reports >= 2)
    S.note("reports", n_reports)


def custom_checks(tier, seed, deadline):
    """E2: CRC-8 routine, AST -> z3"""
    import random
    import z3
    from engine.astsmt import Translator
    from mpf.platforms.opp.opp_rs232_intf import OppRs232Intf
    out = []
    t_all = time.time()
    for fn_name in ("calc_crc8_part_msg", "calc_crc8_whole_msg"):
        fn = getattr(OppRs232Intf, fn_name)
        for n in (6, 10):
            res = dict(name="crc8:%s:%d" % (fn_name, n), queries=0, solver_s=0.0, evaluations=0, nontrivial=0, violations=[], samples=[], conclusive=True)
            try:
                tr = Translator(fn, {"OppRs232Intf.CRC8_LOOKUP": OppRs232Intf.CRC8_LOOKUP})
                msg = [z3.BitVec("m%d" % i, 8) for i in range(n)]
                enc = tr.call(msg, 0, n)[0] if fn_name == "calc_crc8_part_msg" else tr.call(msg)[0]
            except (NotImplementedError, AssertionError, KeyError) as e:
                res.update(conclusive=False, error="translation failed: %r" % (e,))
                out.append(res)
                continue
            # translator validation: encoding vs the real function on vectors (incl. the repo's own CRC test vector shapes)
            rnd = random.Random(seed)
            vectors = [bytes([0x20, 0x08, 0, 0, 0, 1] + [0] * (n - 6)), bytes([0xff] * n), bytes(range(n))] + [bytes(rnd.randrange(256) for _ in range(n)) for _ in range(40)]
            for bs in vectors:
                val = z3.simplify(z3.substitute(enc, *[(msg[i], z3.BitVecVal(bs[i], 8)) for i in range(n)])).as_long()
                real = (fn(bs, 0, n) if fn_name == "calc_crc8_part_msg" else fn(bs))[0]
                res["evaluations"] += 1
                if val != real:
                    res["violations"].append(dict(clause="translator-disagrees-with-real-function", site=fn_name, msg="vector %s: encoding %d, real %d" % (list(bs), val, real),
                                                  inputs={"vector": list(bs)}, scenario="crc", kind="custom"))
            # query 1: equals the bitwise reference CRC-8 (poly 0x07, init 0xFF)
            c = z3.BitVecVal(0xff, 8)
            for b in msg:
                c = c ^ b
                for _ in range(8):
                    c = z3.If(z3.Extract(7, 7, c) == 1, (c << 1) ^ 0x07, c << 1)
            queries = [("equals-reference-crc8", enc != c, None)]
            # query 2: a change of exactly one byte (any position, any value) keeps the CRC -> must be unsat
            # query 2..n+1: a change of exactly one byte alters the CRC. Asked on the reference form, which query 1 proves
            # equal to the encoding of the real routine for every input (mux encoding: ~10 s per position, reference form: < 1 s)
            def ref(bs):
                r = z3.BitVecVal(0xff, 8)
                for b_ in bs:
                    r = r ^ b_
                    for _ in range(8):
                        r = z3.If(z3.Extract(7, 7, r) == 1, (r << 1) ^ 0x07, r << 1)
                return r
            other = z3.BitVec("changed", 8)
            for pos in range(n):
                m2 = list(msg)
                m2[pos] = other
                queries.append(("one-byte-change-at-%d-detected(reference form, justified by query 1)" % pos, z3.And(msg[pos] != other, ref(msg) == ref(m2)), pos))
            for qname, q, qpos in queries:
                if time.time() > deadline:
                    res["conclusive"] = False
                    break
                s = z3.Solver()
                s.set("timeout", 60000)
                s.add(q)
                t0 = time.time()
                r = s.check()
                res["solver_s"] += time.time() - t0
                res["queries"] += 1
                res["evaluations"] += 1
                if str(r) == "unsat":
                    res["nontrivial"] += 1
                elif str(r) == "sat":
                    mdl = s.model()
                    bs = bytes(mdl.eval(b, model_completion=True).as_long() for b in msg)
                    bs2 = None
                    if qpos is not None:
                        l2 = list(bs)
                        l2[qpos] = mdl.eval(other, model_completion=True).as_long()
                        bs2 = bytes(l2)
                    # replay on the real function
                    real = (fn(bs, 0, n) if fn_name == "calc_crc8_part_msg" else fn(bs))[0]
                    if bs2 is None or (fn(bs2, 0, n) if fn_name == "calc_crc8_part_msg" else fn(bs2))[0] == real:
                        res["violations"].append(dict(clause="crc:" + qname, site=fn_name, msg="counterexample %s / %s" % (list(bs), list(bs2) if bs2 else None),
                                                      inputs={"msg": list(bs), "msg2": list(bs2) if bs2 else None}, scenario="crc", kind="custom"))
                    else:
                        res["conclusive"] = False
                else:
                    res["conclusive"] = False
            res["samples"] = [{"inputs": {"function": fn_name, "length": n, "queries": [q[0] for q in queries][:3]}, "notes": {"verdict": "unsat" if res["nontrivial"] == len(queries) else "see counts"}}]
            res["solver_s"] = round(res["solver_s"], 2)
            out.append(res)
    return out


def replay_custom(rec):
    from mpf.platforms.opp.opp_rs232_intf import OppRs232Intf
    i = rec["inputs"]
    if i.get("msg2"):
        a, b = bytes(i["msg"]), bytes(i["msg2"])
        if OppRs232Intf.calc_crc8_whole_msg(a) == OppRs232Intf.calc_crc8_whole_msg(b) and a != b:
            return ("violation", rec["clause"], rec["site"], rec["msg"])
    return None


def scenarios(tier):
    n = 8 if tier == "quick" else 10
    sp = [dict(n=n, cuts=1, cut=c) for c in range(1, n)] + ([dict(n=8, cuts=2)] if tier != "quick" else [])
    rs = [dict(noise=k) for k in (0, 1, 2, 3)]
    it = [dict(reports=2)]
    ds = [dict(proto=p, stream=i) for p in ("fast", "pkone") for i in range(3)]
    fl = [dict()]
    pb = 60 if tier == "quick" else 400
    return [Scenario("opp_split", setup, body_opp_split, sp, teardown=teardown, part_budget=pb, per_path_timeout=60),
            Scenario("opp_resync", setup, body_opp_resync, rs, teardown=teardown, part_budget=pb, per_path_timeout=60),
            Scenario("opp_integrity", setup, body_opp_integrity, it, teardown=teardown, part_budget=pb, per_path_timeout=60),
            Scenario("delim_split", setup, body_delim_split, ds, teardown=teardown, part_budget=pb, per_path_timeout=60),
            Scenario("fast_flow", setup, body_fast_flow, fl, teardown=teardown, part_budget=pb, per_path_timeout=60),
            Scenario("fast_reports", setup_machine, body_fast_reports,
                     [dict(n=3, kinds=[0]), dict(n=3, kinds=[0], split=True), dict(n=4 if tier == "quick" else 5)],
                     teardown=teardown_machine, part_budget=pb, per_path_timeout=60),
            Scenario("fast_overlap", setup, body_fast_overlap, [dict()], teardown=teardown, part_budget=pb, per_path_timeout=60),
            Scenario("fast_retry", setup, body_fast_retry, [dict()], teardown=teardown, part_budget=pb, per_path_timeout=60, min_nontrivial=0)]
