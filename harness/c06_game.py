"""C06 Game lifecycle: turns, balls and lifecycle events are well-formed. DESIGN.md section 2/C06."""
from engine.runner import Scenario
from engine.symdrv import Violation
from engine import stubs

ANCHORS = ["mpf/modes/game/code/game.py", "mpf/core/async_mode.py", "mpf/core/player.py", "mpf/core/mode_controller.py",
           "mpf/modes/attract/code/attract.py"]
FUNCTIONS = ["Game._run", "Game._start_game", "Game._start_player_turn", "Game._run_ball/_start_ball/_end_ball", "Game.balls_in_play (setter)",
             "Game.ball_drained", "Game.end_ball/end_game", "Game._award_extra_ball", "Game._end_player_turn/_rotate_players", "Game._end_game",
             "Game.request_player_add/_player_add_request_complete/_player_adding_complete", "Attract start path (start switch -> request_to_start_game)"]
EXPLANATION = ("Bounded symbolic execution (CrossHair/z3) of the real game mode on a booted machine with fake balls. balls_per_game and max_players are "
               "replaced by solver variables, the number of start-button presses is symbolic, and stimuli (add player, drain, extra ball, end_ball event, end_game "
               "event, a handler holding a lifecycle queue event for a symbolic time) are fired at a solver-chosen lifecycle point (the k-th lifecycle event). The "
               "recorded lifecycle stream with its player/ball arguments is parsed against the grammar of the statement.")
NONTRIVIAL_RULE = "a complete game ran (game_ended seen) with at least one turn parsed"
BOUNDS = {"quick": {"balls_per_game": "[1,3]", "max_players": "[1,3]", "start_presses": "[1,3]", "stimuli": 1, "lifecycle_point": "[0,40]"},
          "thorough": {"balls_per_game": "[1,3]", "max_players": "[1,3]", "start_presses": "[1,4]", "stimuli": 2, "lifecycle_point": "[0,60]"}}
ASSUMPTIONS = ["balls are faked (playfield.add_ball stubbed, drains through the ball_drain relay event); ball devices are C04/C05",
               "end_game while the player still holds an extra ball: the extra ball is still played (statement is silent; not flagged)",
               "slam tilt = what the tilt mode does to the game (game.slam_tilted = True, then game.end_ball()); the tilt mode itself is part of C10's machine"]
BUDGET = {"quick": 100, "thorough": 600}

LIFE = ["game_will_start", "game_starting", "game_started", "player_turn_will_start", "player_turn_starting", "player_turn_started",
        "ball_will_start", "ball_starting", "ball_started", "ball_will_end", "ball_ending", "ball_ended",
        "player_turn_will_end", "player_turn_ending", "player_turn_ended", "game_will_end", "game_ending", "game_ended"]
STIM = ["add_player", "drain", "extra_ball", "end_ball", "end_game", "hold_queue", "add_ball_in_play", "slam_tilt"]


class SymTemplate:
    def __init__(self, v):
        self.v = v

    def evaluate(self, *a, **k):
        return self.v

    evaluate_or_none = evaluate


def setup(part):
    t = stubs.boot("game")
    t.machine.playfield.add_ball = lambda **kwargs: None
    t.machine.ball_controller.num_balls_known = 3
    return t


def teardown(t):
    stubs.shutdown(t)


def body(S, t, part):
    fired_log = []
    try:
        _body(S, t, part, fired_log)
    except Violation as v:
        raise Violation(v.clause, v.site, v.msg + " | stimuli fired: %s" % fired_log)


def _body(S, t, part, fired_log):
    m = t.machine
    S.now_symbolic(t.loop)
    bpg = S.int("balls_per_game", 1, 3)
    maxp = S.int("max_players", 1, 3)
    m.config['game']['balls_per_game'] = SymTemplate(bpg)
    m.config['game']['max_players'] = SymTemplate(maxp)
    presses = S.int("start_presses", 1, part["max_presses"])
    stream = []
    counter = [0]
    stim = []
    for i in range(part["stimuli"]):
        kind = part["kinds"][i] if i < len(part.get("kinds", [])) else STIM[S.choice("stim_kind%d" % i, len(STIM))]
        stim.append(dict(kind=kind, at=S.int("stim_point%d" % i, part.get("min_point", 0), part["max_point"]), done=False))
    hold = S.real("hold_s", 0, 2)
    end_requested = [False]
    drained_to_zero = [False]
    bip_bad = []

    pending_end = [None]

    def fire(st, queue=None, at_event=None):
        g = m.game
        if g is None:
            return
        k = st["kind"]
        if k == "add_player":
            g.request_player_add()
        elif k == "drain":
            if g.balls_in_play > 0:
                before = g.balls_in_play
                m.events.post_relay("ball_drain", balls=1)
                if before == 1:
                    drained_to_zero[0] = True
        elif k == "extra_ball":
            if g.player:
                g.player.extra_balls += 1
        elif k == "end_ball":
            m.events.post("end_ball")
            end_requested[0] = True
            if at_event in ("ball_will_start", "ball_starting", "ball_started"):
                pending_end[0] = sum(1 for x in stream if x[0] == "ball_ended")
        elif k == "end_game":
            m.events.post("end_game")
            end_requested[0] = True
            if at_event in ("ball_will_start", "ball_starting", "ball_started"):
                pending_end[0] = sum(1 for x in stream if x[0] == "ball_ended")
        elif k == "hold_queue" and queue is not None:
            if not queue.waiter:            # one handler registers one wait (two stimuli at the same point share it)
                queue.wait()
                t.loop.call_later(hold, queue.clear)
        elif k == "add_ball_in_play":
            g.balls_in_play += 2
        elif k == "slam_tilt":
            # the game's side of the tilt mode's slam_tilt(): flag the game, then end the current ball
            g.slam_tilted = True
            g.end_ball()
            st["stream_pos"] = len(stream)
            end_requested[0] = True
            if at_event in ("ball_will_start", "ball_starting", "ball_started"):
                pending_end[0] = sum(1 for x in stream if x[0] == "ball_ended")

    def hold_pending():
        return False

    def mk(name):
        def h(queue=None, **kwargs):
            g = m.game
            p = kwargs.get("player", None)
            num = kwargs.get("number", None)
            if num is None and p is not None:
                num = p if isinstance(p, int) else p.number
            stream.append((name, num, kwargs.get("ball", None), bool(kwargs.get("is_extra_ball", False))))
            if g is not None and not 0 <= g.balls_in_play <= m.ball_controller.num_balls_known:
                bip_bad.append((name, g.balls_in_play))
            idx = counter[0]
            counter[0] += 1
            for st in stim:
                if not st["done"] and not st.get("off") and st["at"] == idx:
                    st["done"] = True
                    fired_log.append("%s at %s (current player ball counter=%s)" % (st["kind"], name, g.player.ball if g is not None and g.player else None))
                    fire(st, queue, name)
            if name == "game_ended":
                for st in stim:
                    st["off"] = True          # stimuli belong to the first game only
        return h
    for name in LIFE:
        m.events.add_handler(name, mk(name), priority=10**6)
    added = []
    m.events.add_handler("player_added", lambda num, **kwargs: added.append(num))
    # ---- drive -------------------------------------------------------------------------------------
    game_seen = False
    for i in range(part["max_presses"]):
        if i < presses and (i == 0 or m.game is not None):
            m.switch_controller.process_switch("s_start", 1, logical=True)
            m.switch_controller.process_switch("s_start", 0, logical=True)
            t.advance_time_and_run(0.05)
            game_seen = game_seen or m.game is not None or "game_will_start" in [x[0] for x in stream]
    if not game_seen:
        raise Violation("game-starts", "Game._start_game", "no game after the start button was pressed")
    ended = False
    waited = [0]
    for _ in range(60):
        t.advance_time_and_run(2.5)
        if m.game is None:
            ended = True
            break
        if pending_end[0] is not None:
            # an end was requested while a ball was starting / in play: that ball must end WITHOUT a drain
            if sum(1 for x in stream if x[0] == "ball_ended") > pending_end[0]:
                pending_end[0] = None
            else:
                waited[0] += 1
                if waited[0] > 3:
                    raise Violation("ball-ends-when-an-end-is-requested", "Game._run_ball", "end requested during the ball's start phase but the ball is still running 10 s later (balls_in_play=%s)" % m.game.balls_in_play)
                continue
        g = m.game
        if g.balls_in_play > 0:
            before = g.balls_in_play
            m.events.post_relay("ball_drain", balls=1)
            if before == 1:
                drained_to_zero[0] = True
    t.advance_time_and_run(3)
    if bip_bad:
        raise Violation("balls-in-play-within-bounds", "Game.balls_in_play", "balls_in_play out of [0, balls known]: %s" % bip_bad[:3])
    if m.game is not None or not ended:
        raise Violation("game-ends", "Game._run", "game still running after all balls were drained 60 times; stream tail %s" % stream[-6:])
    for st in stim:
        if st["kind"] == "slam_tilt" and st["done"] and "stream_pos" in st:
            k = st["stream_pos"]            # number of lifecycle events posted up to and including the one that slam-tilted
            before = [x[0] for x in stream[:k]]
            after = [x[0] for x in stream[k:]]
            in_turn = before.count("player_turn_will_start") > before.count("player_turn_ended")
            in_ball = before.count("ball_will_start") > before.count("ball_ended")
            if in_turn and "player_turn_will_start" in after:
                raise Violation("slam-tilt-ends-the-game", "Game._run", "slam tilt during the turn of player %s (of %d) but another turn started afterwards: %s" % (
                    [x[1] for x in stream[:k] if x[0] == "player_turn_will_start"][-1], len(added), after[:8]))
            if in_ball and "ball_will_start" in after:
                raise Violation("slam-tilt-ends-the-game", "Game._run", "slam tilt during a ball but another ball started afterwards: %s" % after[:8])
    # ---- parse the stream against the statement's grammar -----------------------------------------
    names = [x[0] for x in stream]
    pos = [0]

    def expect(name, player=None, ball=None):
        if pos[0] >= len(stream) or stream[pos[0]][0] != name:
            got = stream[pos[0]] if pos[0] < len(stream) else "<end of stream>"
            raise Violation("lifecycle-events-nest-in-order", "Game._run", "expected %s at position %d but got %s; around %s" % (name, pos[0], got, names[max(0, pos[0] - 4):pos[0] + 3]))
        rec = stream[pos[0]]
        if player is not None and rec[1] is not None and rec[1] != player:
            raise Violation("lifecycle-events-carry-right-player-and-ball", "Game._start_player_turn", "%s for player %s, expected %s" % (name, rec[1], player))
        if ball is not None and rec[2] is not None and rec[2] != ball:
            raise Violation("lifecycle-events-carry-right-player-and-ball", "Game._start_ball", "%s with ball %s, expected %s" % (name, rec[2], ball))
        pos[0] += 1

    def peek():
        return stream[pos[0]][0] if pos[0] < len(stream) else None
    expect("game_will_start")
    expect("game_starting")
    ended_during_start = any(st["kind"] == "end_game" and st["done"] and st["at"] <= 1 for st in stim)
    if peek() == "game_started" or not ended_during_start:
        expect("game_started")
    turns = 0
    ball_no, player_no = 1, 1
    n_players_final = len(added)
    if ended_during_start and n_players_final == 0:
        pass
    elif n_players_final < 1:
        # (max_players is not part of the statement: two add requests in the same loop iteration can both pass the check)
        raise Violation("game-has-a-player", "Game.request_player_add", "no player was added")
    if added != list(range(1, n_players_final + 1)):
        raise Violation("players-in-order", "Game._player_add_request_complete", "player numbers %s" % added)
    while peek() == "player_turn_will_start":
        expect("player_turn_will_start", player=player_no)
        expect("player_turn_starting", player=player_no)
        expect("player_turn_started", player=player_no)
        balls = 0
        while peek() == "ball_will_start":
            expect("ball_will_start")
            expect("ball_starting", player=player_no, ball=ball_no)
            expect("ball_started", player=player_no, ball=ball_no)
            expect("ball_will_end")
            expect("ball_ending")
            expect("ball_ended")
            balls += 1
        if balls < 1:
            raise Violation("one-ball-per-turn", "Game._run_ball", "turn of player %d ball %d had no ball" % (player_no, ball_no))
        expect("player_turn_will_end", player=player_no)
        expect("player_turn_ending", player=player_no)
        expect("player_turn_ended", player=player_no)
        turns += 1
        if ball_no > bpg:
            raise Violation("ball-number-within-balls-per-game", "Game._run", "turn for ball %d with balls_per_game %s" % (ball_no, bpg))
        # next expected turn
        if player_no < n_players_final:
            player_no += 1
        else:
            player_no, ball_no = 1, ball_no + 1
    expect("game_will_end")
    expect("game_ending")
    expect("game_ended")
    if pos[0] != len(stream):
        raise Violation("lifecycle-events-nest-in-order", "Game._end_game", "events after game_ended: %s" % names[pos[0]:pos[0] + 5])
    ended_early = any(st["kind"] in ("end_game", "slam_tilt") and st["done"] for st in stim)
    full = n_players_final * bpg
    if not ended_early and turns != full:
        raise Violation("each-player-one-turn-per-ball-number", "Game._run", "%d turns for %d player(s) x %s balls (no end_game requested)" % (turns, n_players_final, bpg))
    if turns > full:
        raise Violation("each-player-one-turn-per-ball-number", "Game._run", "%d turns exceed %d player(s) x %s balls" % (turns, n_players_final, bpg))
    # a new game can start
    m.switch_controller.process_switch("s_start", 1, logical=True)
    m.switch_controller.process_switch("s_start", 0, logical=True)
    t.advance_time_and_run(0.5)
    if m.game is None:
        raise Violation("new-game-can-start-after-end", "Game._end_game", "start button ignored after game_ended")
    S.note("nontrivial", turns >= 1)
    S.note("turns", turns)


def scenarios(tier):
    if tier == "quick":
        parts = [dict(stimuli=1, kinds=[k], max_presses=3, max_point=40) for k in STIM]
        parts.append(dict(stimuli=0, kinds=[], max_presses=3, max_point=0))
        parts.append(dict(stimuli=1, kinds=["add_player"], max_presses=1, min_point=9, max_point=17))     # the turn-change window after ball 1
        parts.append(dict(stimuli=1, kinds=["slam_tilt"], max_presses=3, min_point=5, max_point=14))      # slam tilt in the first player's first turn
    else:
        parts = [dict(stimuli=2, kinds=[a, b], max_presses=3, max_point=50) for a in STIM for b in STIM]
    pb = 80 if tier == "quick" else 500
    return [Scenario("lifecycle", setup, body, parts, teardown=teardown, part_budget=pb, per_path_timeout=60)]
