"""C19 BCP messages round-trip exactly and reassemble from any chunking. DESIGN.md section 2/C19."""
import asyncio

from engine.runner import Scenario
from engine.symdrv import Violation
from engine import stubs, symloop

ANCHORS = ["mpf/core/bcp/bcp_socket_client.py", "mpf/core/bcp/bcp_transport.py", "mpf/core/bcp/bcp_interface.py"]
FUNCTIONS = ["encode_command_string", "decode_command_string", "AsyncioBcpClientSocket.read_message/_process_command", "BCPClientSocket.read_message/_process_command",
             "asyncio.StreamReader.readline/readexactly (real, fed chunk-wise)"]
EXPLANATION = ("Bounded symbolic execution (CrossHair/z3) of the real BCP codec. 'roundtrip': decode(encode(cmd, k=v)) for a symbolic value v of kind int, bool, None, "
               "float on a grid plus magnitudes, a string from a corpus (separators, percent signs, type-like prefixes, non-ASCII) or a nested list/dict from a corpus must "
               "give back the same value with the same type. 'reassembly': a stream of five messages (two with binary payloads that themselves contain newlines and the "
               "&bytes= marker, followed by further messages) is fed to a real asyncio.StreamReader in three chunks at two symbolic cut points and read through both "
               "read_message implementations: the decoded (command, kwargs) sequence must equal the unsplit decode, in order.")
NONTRIVIAL_RULE = "the decoded value/type (roundtrip) or the decoded message sequence (reassembly) was compared"
BOUNDS = {"quick": {"ints": "[-3,12] enumerated and magnitudes corpus", "floats": "grid of halves in [-3,3] plus 8 magnitudes", "strings": "corpus of 24", "stream_bytes": "~290", "cuts": "every single cut for both clients; every pair of cuts at most 14 bytes apart (asyncio client)"},
          "thorough": {"ints": "[-20,40]", "strings": "corpus of 24", "cuts": 2, "streams": 2}}
ASSUMPTIONS = ["arbitrary Unicode through urllib is not decided: urllib.parse (regex/C) realises symbolic strings, so strings come from a corpus and numbers are enumerated under the solver's bookkeeping",
               "slicing the concrete stream by a symbolic index realises the index: cut points are enumerated by ==/!= forks (complete for the stream, no abstraction)",
               "messages longer than the StreamReader limit (64 KiB) and the pickle client are outside"]
BUDGET = {"quick": 100, "thorough": 600}

STRINGS = ["", "hello", "a b", "a&b=c", "x=y", "50%", "%41", "%2541", "a+b", "int:5", "float:1", "bool:true", "bool:False", "NoneType:", "json=1", "ä", "日本", "a\tb",
           "?q", "#frag", "a/b;c", "&bytes=3", "'\"", "  "]
FLOATS = [1e16, 2.5e+300, 1e-7, 0.1, -0.0, 123456789.125, 3.0, 1e15]
INTS = [10**6, -10**9, 2**63, 0, 7]
NESTED = [[1, 2], {"a": 1}, [1, [2, "x"]], {"k": [True, None, 1.5]}, ["int:5"], {"a b": "c&d"}, {"1": "x", "k": {"2024": [1]}}, {"007": 1, "7": 2}, [{"-3": None}, "5"]]


def setup(part):
    stubs.shims()
    return symloop.new_loop()


def teardown(loop):
    try:
        loop._ready.clear()
        loop._scheduled.clear()
        loop.close()
    except Exception:  # pylint: disable=broad-except
        pass


def body_roundtrip(S, loop, part):
    from mpf.core.bcp.bcp_socket_client import encode_command_string, decode_command_string
    kind = part["kind"]
    if kind == "int":
        v = (S.choice("v_plus3", 16) - 3) if S.bool("small") else INTS[S.choice("magnitude", len(INTS))]
    elif kind == "bool":
        v = bool(S.bool("v"))
    elif kind == "none":
        v = None
    elif kind == "float":
        v = (S.choice("halves_plus6", 13) - 6) / 2.0 if S.bool("small") else FLOATS[S.choice("magnitude", len(FLOATS))]
    elif kind == "str":
        v = STRINGS[S.choice("string", len(STRINGS))]
    else:
        v = NESTED[S.choice("nested", len(NESTED))]
    second = S.choice("second_param", 3)            # another parameter next to it: none, a string, an int
    kwargs = {"k": v}
    if second == 1:
        kwargs["other"] = "x y"
    elif second == 2:
        kwargs["other"] = 5
    try:
        line = encode_command_string("cmd", **kwargs)
    except Exception as e:  # pylint: disable=broad-except
        raise Violation("encodes-to-a-single-line", "encode_command_string", "encode(%r) raised %s" % (kwargs, type(e).__name__))
    if "\n" in line or "\r" in line:
        raise Violation("encodes-to-a-single-line", "encode_command_string", "encoded %r contains a line break: %r" % (kwargs, line))
    try:
        cmd, out = decode_command_string(line)
    except Exception as e:  # pylint: disable=broad-except
        raise Violation("decodes-back-to-the-same-values", "decode_command_string", "decode(%r) [from %r] raised %s" % (line, kwargs, type(e).__name__))
    if cmd != "cmd":
        raise Violation("decodes-back-to-the-same-command", "decode_command_string", "command %r" % cmd)
    for k, want in kwargs.items():
        got = out.get(k, "<missing>")
        same = (got == want or (isinstance(want, float) and isinstance(got, float) and want != want and got != got)) and type(got) is type(want)
        if isinstance(want, float) and isinstance(got, float) and got == want and str(got) != str(want):
            same = False          # -0.0 vs 0.0
        if not same:
            raise Violation("decodes-back-to-the-same-values-and-types", "decode_command_string", "parameter %s=%r (%s) came back as %r (%s) via %r" % (
                k, want, type(want).__name__, got, type(got).__name__ if got != "<missing>" else "-", line))
    if set(out) != set(kwargs):
        raise Violation("decodes-back-to-the-same-values-and-types", "decode_command_string", "parameters %s came back as %s" % (sorted(kwargs), sorted(out)))
    S.note("nontrivial", True)
    S.note("kind", kind)


def _stream():
    from mpf.core.bcp.bcp_socket_client import encode_command_string
    msgs = []
    msgs.append((encode_command_string("hello", version="1.1", n=3) + "\n").encode())
    payload1 = b"\x00\x01\nab&bytes=7\n\xff"
    msgs.append((encode_command_string("dmd_frame", name="a") + "&bytes=%d\n" % len(payload1)).encode() + payload1)
    msgs.append((encode_command_string("trigger", name="ev one", value=1.5) + "\n").encode())
    payload2 = b"trigger?name=fake\n" * 2
    msgs.append((encode_command_string("rgb_dmd_frame", name="b") + "&bytes=%d\n" % len(payload2)).encode() + payload2)
    msgs.append((encode_command_string("goodbye", data=[1, {"a": "b c"}]) + "\n").encode())
    return b"".join(msgs)


def _read_all(loop, cls_name, chunks):
    from mpf.core.bcp import bcp_socket_client as mod
    reader = asyncio.StreamReader()
    if cls_name == "asyncio":
        client = mod.AsyncioBcpClientSocket(None, reader)
    else:
        client = mod.BCPClientSocket.__new__(mod.BCPClientSocket)
        client._receiver = reader
        client._debug = False
        client._bcp_client_socket_commands = {}
    out = []

    async def consume():
        while True:
            try:
                out.append(await client.read_message())
            except (BrokenPipeError, asyncio.IncompleteReadError):
                return

    async def main():
        task = asyncio.ensure_future(consume())
        for ch in chunks:
            if ch:
                reader.feed_data(ch)
            await asyncio.sleep(0.01)           # the receiver runs between the reads
        reader.feed_eof()
        await asyncio.sleep(0.01)
        await task
    loop.run_until_complete(main())
    return out


def body_reassembly(S, loop, part):
    data = _stream()
    n = len(data)
    lo, hi = part["c1_range"]
    hi = min(hi, n)
    c1 = S.int("cut1", lo, hi)
    span = part.get("c2_span")
    if span == 0:
        c2 = n                       # a single cut
    elif span:
        c2 = c1 + S.int("cut2_offset", 0, span)
        S.assume(c2 <= n)
    else:
        c2 = S.int("cut2", 0, n)
        S.assume(c1 <= c2)
    want = _read_all(loop, part["client"], [data])
    if len(want) != 5:
        raise Violation("harness", "stream", "unsplit stream decodes to %d messages" % len(want))
    got = _read_all(loop, part["client"], [data[:c1], data[c1:c2], data[c2:]])
    if got != want:
        raise Violation("reassembles-identically-from-any-chunking", "read_message", "cuts at %s/%s of %d: %d messages %s, unsplit gives %s" % (
            c1, c2, n, len(got), [g[0] for g in got], [w[0] for w in want]))
    S.note("nontrivial", True)
    S.note("client", part["client"])


WIRE = NESTED + [["a&bytes=3"], {"k": "x&y=z"}, ["50%", "a+b"], ["#frag", "?q"], {"q": "%41"}, ["a=b", "c;d"], {"json": "json=1"}, [u"\u00e4", "x y"]]


def body_wire(S, loop, part):
    """sender to receiver over the wire: a command with a nested list/dict parameter (strings with separators inside), followed by a
    sentinel command, must come out of the real receiver as exactly those two commands with the same values and types"""
    from mpf.core.bcp.bcp_socket_client import encode_command_string
    v = WIRE[S.choice("nested", len(WIRE))]
    extra = S.choice("second_param", 3)
    kwargs = {"k": v}
    if extra == 1:
        kwargs["other"] = "x y"
    elif extra == 2:
        kwargs["other"] = 5
    data = (encode_command_string("cmd", **kwargs) + "\n" + encode_command_string("sentinel", n=1) + "\n").encode()
    cut = S.int("cut", 0, len(data))
    got = _read_all(loop, part["client"], [data[:cut], data[cut:]])
    want = [("cmd", kwargs), ("sentinel", {"n": 1})]
    norm = [(g[0], dict(g[1])) if isinstance(g, (tuple, list)) and len(g) >= 2 and isinstance(g[1], dict) else g for g in got]
    norm = [(c, {k: x for k, x in kw.items() if k != "rawbytes" or x is not None}) if isinstance(kw, dict) else (c, kw) for c, kw in norm]
    if norm != want:
        raise Violation("decodes-back-to-the-same-values-and-types", "read_message", "sent cmd?%r then sentinel; the receiver delivered %r" % (kwargs, norm))
    S.note("nontrivial", True)
    S.note("value", repr(v))


def scenarios(tier):
    rparts = [dict(kind=k) for k in ("int", "bool", "none", "float", "str", "nested")]
    n = len(_stream())
    if tier == "quick":
        aparts = [dict(client=c, c1_range=[i, i + 59], c2_span=0) for c in ("asyncio", "mpf") for i in range(0, n + 1, 60)]              # every single cut
        aparts += [dict(client="asyncio", c1_range=[i, i + 23], c2_span=14) for i in range(0, n + 1, 24)]                                # two cuts up to 14 bytes apart
    else:
        aparts = [dict(client=c, c1_range=[i, i + 11]) for c in ("asyncio", "mpf") for i in range(0, n + 1, 12)]                         # every pair of cuts
    pb = 70 if tier == "quick" else 300
    return [Scenario("roundtrip", setup, body_roundtrip, rparts, teardown=teardown, part_budget=pb, per_path_timeout=30),
            Scenario("wire", setup, body_wire, [dict(client="asyncio"), dict(client="mpf")], teardown=teardown, part_budget=pb, per_path_timeout=30),
            Scenario("reassembly", setup, body_reassembly, aparts, teardown=teardown, part_budget=pb, per_path_timeout=30)]
