"""C04 Ball counts agree with the physical machine and are conserved. DESIGN.md section 2/C04."""
from engine.runner import Scenario
from engine.symdrv import Violation
from engine import stubs
from harness.world import World, Dev

ANCHORS = ["mpf/devices/ball_device/ball_device.py", "mpf/devices/ball_device/ball_count_handler.py", "mpf/devices/ball_device/switch_counter.py",
           "mpf/devices/ball_device/incoming_balls_handler.py", "mpf/devices/ball_device/outgoing_balls_handler.py", "mpf/devices/playfield.py", "mpf/core/ball_controller.py"]
FUNCTIONS = ["BallDevice (state machine, eject queue, lost_idle_ball, lost_ejected_ball)", "BallCountHandler.wait_for_ready_to_receive/_handle_missing_balls/_run",
             "SwitchCounter.count_balls/_count_switches_sync/wait_for_ball_activity", "IncomingBallsHandler", "OutgoingBallsHandler._eject_ball/_ejecting/_handle_eject_success",
             "Playfield.add_ball/balls/ball_arrived/add_missing_balls", "BallController (num_balls_known, collect)", "PulseCoilEjector.eject_one_ball"]
EXPLANATION = ("Bounded symbolic execution (CrossHair/z3) of the real ball-device coroutines on a booted machine, driven by a physical-world simulator that wraps the "
               "platform's coil drivers and feeds switch changes: transit times, the drain instant and the instants at which balls are taken out of an idle device are symbolic "
               "reals (so every order of arrival, timeout and drain is a path). Topologies: (a) trough(2) -> plunger -> playfield, (b) trough(2) -> launcher (switch-confirmed) "
               "-> one-ball VUK -> playfield. At rest every device count equals the balls physically in it, the playfield count equals the loose balls, the counts sum to the "
               "balls known, no count is negative or above capacity, and no coil fires towards a device without room.")
NONTRIVIAL_RULE = "at least one ball was moved by an eject and the counts were compared at rest"
BOUNDS = {"quick": {"topologies": 2, "balls": 2, "transit_s": "[0.05,6] real (eject timeout 3 s / 6 s inside)", "drain_at_s": "[0.05,12] real", "symbolic durations per scenario": "2-3"},
          "thorough": {"topologies": 2, "balls": 2, "symbolic durations per scenario": 3}}
ASSUMPTIONS = ["the simulator's physics (harness/world.py) is the definition of 'physically': stacked ball switches, one ball per pulse, no bounce or jam switches",
               "two fixed topologies with up to 2 balls, one game; 'at rest' = 40 s of virtual time after the last external change",
               "instants that coincide exactly with an eject timeout are assumed away"]
BUDGET = {"quick": 110, "thorough": 900}


def setup(part):
    return stubs.boot(part["machine"])


def teardown(t):
    stubs.shutdown(t)


def _world(S, t, part, dur, fail=None):
    if part["machine"] == "balls_a":
        devs = [Dev("bd_trough", ["s_trough1", "s_trough2"], "c_trough", "bd_plunger"), Dev("bd_plunger", ["s_plunger"], "c_plunger", "playfield")]
    else:
        devs = [Dev("bd_trough", ["s_trough1", "s_trough2"], "c_trough", "bd_launcher"), Dev("bd_launcher", ["s_launcher"], "c_launcher", "bd_vuk", confirm_switch="s_launcher_confirm"),
                Dev("bd_vuk", ["s_vuk"], "c_vuk", "playfield")]
    return World(t, devs, {"bd_trough": 2}, dur, fail)


def body(S, t, part):
    m = t.machine
    S.now_symbolic(t.loop)
    sc = part["scenario"]
    dur = {}
    first = "bd_trough"
    second = "bd_plunger" if part["machine"] == "balls_a" else "bd_launcher"
    lo, hi = part.get("tr_range", [0.05, 6])
    dur["transit_" + first] = S.real("transit_trough", lo, hi)
    dur["transit_" + second] = S.real("transit_" + second[3:], 0.05, 6) if sc != "steal" else 0.5
    if part["machine"] == "balls_b":
        dur["transit_bd_vuk"] = 0.5
        dur["confirm_bd_launcher"] = 0.2
        S.assume(dur["transit_bd_launcher"] > 0.25)
    w = _world(S, t, part, dur)
    t.advance_time_and_run(1)
    w.check_counts("after boot")
    moved = False
    if sc == "game_drain":
        t.hit_and_release_switch("s_start")
        drain_at = S.real("drain_at", 0.05, 12)
        w.later(drain_at, w.drain)
        t.advance_time_and_run(45)
        moved = True
    elif sc == "two_balls":
        # two balls requested for the playfield in a row: the second must wait until the path has room
        m.playfield.add_ball(2)
        t.advance_time_and_run(45)
        moved = True
    elif sc == "steal":
        # balls leave the idle trough without an eject (taken out / bounced out), possibly two within one count window
        gap = S.real("steal_gap", 0, 1)
        w.steal()
        t.advance_time_and_run(gap)
        w.steal()
        t.advance_time_and_run(20)
        w.never_negative("after two balls left the idle trough")
        back1 = S.bool("first_comes_back")
        if back1:
            w.drain()
            t.advance_time_and_run(5)
        w.drain()
        t.advance_time_and_run(20)
        w.never_negative("after the balls drained back")
        moved = True
    t.advance_time_and_run(10)
    if w.violations:
        raise Violation(*w.violations[0])
    w.check_idle("at rest")
    w.check_counts("at rest")
    S.note("nontrivial", moved and any(d.pulses for d in w.devs.values()) or sc == "steal")
    S.note("pulses", sum(d.pulses for d in w.devs.values()))


def setup_entrance(part):
    return stubs.boot("balls_g")


def body_entrance(S, t, part):
    """a device that counts at its entrance (switch and entrance event, capacity 2): whatever entries are reported, its count never
    exceeds its capacity and never goes negative"""
    m = t.machine
    S.now_symbolic(t.loop)
    lock = m.ball_devices["bd_trough"]
    cap = lock.config['ball_capacity']
    t.advance_time_and_run(1)
    n = part["entries"]
    k = S.int("entries", 1, n)
    for i in range(n):
        if i >= k:
            break
        if S.bool("entry%d_by_event" % i):
            m.events.post("trough_ball_entered")
        else:
            m.switch_controller.process_switch("s_entrance", 1, logical=True)
            m.switch_controller.process_switch("s_entrance", 0, logical=True)
        t.advance_time_and_run(S.real("gap%d" % i, 0, 3))
        if lock.balls < 0 or lock.balls > cap:
            raise Violation("count-never-negative-or-above-capacity", "EntranceSwitchCounter.received_entrance_event", "after entry %d: bd_trough.balls=%s with capacity %s" % (i + 1, lock.balls, cap))
    counter = lock.ball_count_handler.counter
    for step in range(40):          # watch the count while it settles (the device ejects unclaimed balls again afterwards)
        t.advance_time_and_run(0.25)
        seen = max(lock.balls, getattr(counter, "_last_count", 0) or 0)
        if lock.balls < 0 or seen > cap:
            raise Violation("count-never-negative-or-above-capacity", "EntranceSwitchCounter.received_entrance_event", "%.2f s after %s entries: bd_trough counts %s ball(s) with capacity %s" % (
                0.25 * (step + 1), k, seen, cap))
    # (unclaimed balls are ejected again by the device: how many stay is not part of this scenario, only the bounds are)
    S.note("nontrivial", k >= 1)
    S.note("entries", k)


def scenarios(tier):
    parts = []
    for mach in ("balls_a", "balls_b"):
        for sc in ("game_drain", "two_balls"):
            for r in ([0.05, 1.5], [1.5, 2.95], [3.05, 6]):          # early, late but before the 3 s eject timeout, after the timeout
                parts.append(dict(machine=mach, scenario=sc, tr_range=r))
        parts.append(dict(machine=mach, scenario="steal", tr_range=[0.5, 0.5]))
    pb = 60 if tier == "quick" else 800
    return [Scenario("world", setup, body, parts, teardown=teardown, part_budget=pb, per_path_timeout=30 if tier == "quick" else 120),
            Scenario("entrance", setup_entrance, body_entrance, [dict(entries=3 if tier == "quick" else 5)], teardown=teardown, part_budget=pb, per_path_timeout=60)]
