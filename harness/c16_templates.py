"""C16 Templates evaluate like Python and never act on stale values. DESIGN.md section 2/C16."""
import itertools

from engine.runner import Scenario
from engine.symdrv import Violation
from engine import stubs

ANCHORS = ["mpf/core/placeholder_manager.py", "mpf/core/device_monitor.py", "mpf/core/machine_vars.py", "mpf/core/settings_controller.py",
           "mpf/core/events.py"]
FUNCTIONS = ["BasePlaceholderManager._eval/_eval_bin_op/_eval_unary_op/_eval_compare/_eval_bool_op/_eval_if/_eval_tuple/_eval_name/_eval_attribute/_eval_subscript",
             "BaseTemplate.evaluate/evaluate_or_none/evaluate_and_subscribe", "Raw/Int/Float/Bool/StringTemplate.convert_result",
             "MachinePlaceholder/SettingsPlaceholder/DevicesPlaceholder.subscribe_attribute", "DeviceMonitor.__setattr__/_notify_placeholder_change/subscribe_attribute",
             "MachineVariables.set_machine_var", "SettingsController.set_setting_value", "EventManager conditional handlers (event{condition})"]
EXPLANATION = ("Bounded symbolic execution (CrossHair/z3) of the real template evaluator. 'expr': expression programs generated from the supported "
               "grammar (all binary, comparison, boolean, unary operators, conditional, tuple, subscript) up to depth 2 are evaluated by the real evaluator and by "
               "Python's own eval() over the same symbolic leaves (ints in [-8,8], reals, bools, None, short strings): value and type must agree, a Python TypeError / "
               "missing variable must give the default. 'subscribe': on a booted machine templates over machine variables, a setting and monitored device attributes "
               "are evaluated with subscription; one symbolic change of one input must complete the future iff the evaluation read that input, and the re-evaluated value "
               "must equal Python's; a conditional event handler fires iff its condition holds on the current values.")
NONTRIVIAL_RULE = "the template returned a value that was compared with Python's value of the same expression (expr) / a change was applied and the future state checked (subscribe)"
BOUNDS = {"quick": {"programs": "all depth-1 programs + a fixed slice of depth-2 programs", "int_leaves": "[-8,8]", "real_leaves": "[-8,8]", "str_leaves": "corpus of 4", "changes": 1},
          "thorough": {"programs": "all depth-1 and depth-2 programs over the operator table", "int_leaves": "[-8,8]", "changes": 2}}
ASSUMPTIONS = ["boolean operators evaluate all operands (statement): when Python short-circuits past an operand that raises, either the Python value or the default is accepted",
               "ZeroDivisionError / overflow in Python: default or an error is accepted, never a different value", "** only with exponent in [0,3]",
               "string leaves come from a 4-string corpus chosen by the solver"]
BUDGET = {"quick": 100, "thorough": 600}

BINOPS = ["+", "-", "*", "//", "/", "**", "^", "%"]
CMPS = ["==", "<", ">", "<=", ">=", "!="]
STRS = ["", "a", "ab", "7"]


def _programs(tier):
    d1 = ["a %s b" % o for o in BINOPS] + ["a %s b" % o for o in CMPS] + ["a and b", "a or b", "-a", "not a", "a if c else b", "(a, b)", "(a, b)[0]", "a and b and c"]
    if tier == "quick":
        d2 = ["(a + b) * c", "a - b > c", "(a < b) and (b < c)", "-(a % b)", "(a // b) if c else (a ^ b)", "not (a == b) or c", "(a * b) == (c * c)", "a / b + c", "(a, b + c)[1]", "(a if a > b else b) - c"]
    else:
        d2 = []
        for o1, o2 in itertools.product(BINOPS + CMPS[:3] + ["and", "or"], BINOPS[:5] + CMPS[:2] + ["and"]):
            d2.append("(a %s b) %s c" % (o1, o2))
            d2.append("a %s (b %s c)" % (o1, o2))
    return d1 + d2


def setup(part):
    return stubs.boot("templates")


def teardown(t):
    stubs.shutdown(t)


def _leaf(S, name, kind):
    if kind == "int":
        return S.int(name, -8, 8)
    if kind == "real":
        return S.real(name, -8, 8)
    if kind == "bool":
        return bool(S.bool(name))
    if kind == "none":
        return None
    return STRS[S.choice(name + "_str", len(STRS))]


def _eager_exception(src, env):
    """the exception Python raises when the boolean operators of `src` evaluate ALL their operands (the statement's semantics for
    and/or: no short circuit), or None"""
    import ast

    class Eager(ast.NodeTransformer):
        def visit_BoolOp(self, node):
            self.generic_visit(node)
            return ast.copy_location(ast.Call(func=ast.Name(id="_all_operands", ctx=ast.Load()),
                                              args=[ast.Constant(isinstance(node.op, ast.And)), ast.List(elts=node.values, ctx=ast.Load())], keywords=[]), node)

    def _all_operands(is_and, values):
        for v in values:
            if bool(v) != is_and:
                return v
        return values[-1]
    tree = ast.fix_missing_locations(Eager().visit(ast.parse(src, mode="eval")))
    try:
        eval(compile(tree, "<eager>", "eval"), {"__builtins__": {}, "_all_operands": _all_operands}, dict(env))        # nosec
    except (ZeroDivisionError, OverflowError, IndexError, TypeError) as e:
        return e
    return None


def body_expr(S, t, part):
    pm = t.machine.placeholder_manager
    src = part["src"]
    kinds = part["kinds"]
    env = {n: _leaf(S, n, k) for n, k in zip("abc", kinds)}
    if "**" in src:
        S.assume(isinstance(env["b"], int) and not isinstance(env["b"], bool) and 0 <= env["b"] <= 3)
    tpl = pm.build_raw_template(src, default_value="DEFAULT")
    py_exc = None
    try:
        want = eval(compile(src, "<expr>", "eval"), {"__builtins__": {}}, dict(env))        # Python's own semantics  # nosec
    except TypeError as e:
        py_exc = e
    except (ZeroDivisionError, OverflowError, IndexError) as e:
        py_exc = e
    try:
        got = tpl.evaluate(dict(env))
    except Exception as e:  # pylint: disable=broad-except
        if isinstance(py_exc, (ZeroDivisionError, OverflowError, IndexError)):
            S.note("nontrivial", True)
            S.note("outcome", "both-raise")
            return
        if py_exc is None and (" and " in src or " or " in src) and isinstance(_eager_exception(src, env), (ZeroDivisionError, OverflowError, IndexError)):
            # an operand that Python's short circuit skips raises when all operands are evaluated, as the statement prescribes
            S.note("nontrivial", True)
            S.note("outcome", "both-raise-all-operands")
            return
        if py_exc is not None:
            raise Violation("type-incompatible-operands-give-default", "_eval_unary_op" if src.startswith(("-", "not")) else "BaseTemplate.evaluate",
                            "%s with %s raised %s instead of returning the default" % (src, env, type(e).__name__))
        raise Violation("evaluates-like-python", "BaseTemplate.evaluate", "%s with %s raised %s but Python gives %r" % (src, env, type(e).__name__, want))
    uses_bool = " and " in src or " or " in src
    if py_exc is not None:
        if got != "DEFAULT":
            raise Violation("type-incompatible-operands-give-default" if isinstance(py_exc, TypeError) else "evaluates-like-python", "_eval_bin_op",
                            "%s with %s returned %r but Python raises %s" % (src, env, got, type(py_exc).__name__))
        S.note("nontrivial", True)
        S.note("outcome", "default")
        return
    if got == "DEFAULT" and want is not None and uses_bool:
        S.note("outcome", "default-bool-all-operands")      # an operand Python short-circuits past raised: statement allows it
        return
    if want is None:
        ok = got == "DEFAULT" or got is None
    else:
        ok = (got == want) and (type(got) is type(want))
    if not ok:
        raise Violation("evaluates-like-python", "_eval_compare" if any(c in src for c in CMPS) else "_eval_bin_op",
                        "%s with %s: template gives %r (%s), Python gives %r (%s)" % (src, env, got, type(got).__name__, want, type(want).__name__))
    S.note("nontrivial", True)
    S.note("outcome", "value")


TEMPLATES = [
    ("machine.a + 1", {"a"}),
    ("machine.a > device.counters.c1.value", {"a", "c1.value"}),
    ("settings.s1 * 2 + machine.a", {"s1", "a"}),
    ("machine.a if device.counters.c1.enabled else machine.b", None),       # reads depend on the branch
    ("machine.a and machine.b", {"a", "b"}),
    ("(machine.a, machine.b)[0] - machine.b", {"a", "b"}),
    ("settings.s2 + machine.a", {"s2", "a"}),
    ("machine.a + machine.u", {"a", "u"}),          # u is unset (None) at first: the operands are type-incompatible until u gets a value
    ("machine.u * 2 > machine.a", {"a", "u"}),
]
CHANGES = ["a", "b", "c", "s1", "c1.value", "c1.enabled", "s2", "u"]


def body_subscribe(S, t, part):
    m = t.machine
    pm = m.placeholder_manager
    src, reads = TEMPLATES[part["template"]]
    c1 = m.counters["c1"]
    a0 = S.int("a0", -5, 5)
    m.variables.set_machine_var("a", a0)
    if m.variables.is_machine_var("u"):
        m.variables.remove_machine_var("u")         # unset at the start of every path
    if S.bool("c1_enabled_at_start"):
        m.events.post("c1_enable")
    t.advance_time_and_run(0.01)

    def py_value():
        a, b = m.variables.get_machine_var("a"), m.variables.get_machine_var("b")
        s1 = m.settings.get_setting_value("s1")
        s2 = m.settings.get_setting_value("s2")
        u = m.variables.get_machine_var("u")
        if part["template"] in (7, 8):
            try:
                return a + u if part["template"] == 7 else u * 2 > a
            except TypeError:
                return tpl.default_value
        return {6: lambda: s2 + a, 0: lambda: a + 1, 1: lambda: a > c1.value, 2: lambda: s1 * 2 + a, 3: lambda: a if c1.enabled else b,
                4: lambda: a and b, 5: lambda: (a, b)[0] - b}[part["template"]]()
    tpl = pm.build_raw_template(src)
    val, fut = tpl.evaluate_and_subscribe({})
    if val != py_value():
        raise Violation("evaluates-like-python", "evaluate_and_subscribe", "%s = %r, Python %r" % (src, val, py_value()))
    static_reads = reads

    def reads_now():
        """what the last evaluation read (Python's evaluation order: an operand that fails ends the evaluation)"""
        if part["template"] == 3:
            return {"a", "c1.enabled"} if c1.enabled else {"b", "c1.enabled"}
        if part["template"] == 8 and m.variables.get_machine_var("u") is None:
            return {"u"}                    # None * 2 fails before machine.a is looked at
        return static_reads
    reads = reads_now()
    for step in range(part["changes"]):
        what = CHANGES[S.choice("change%d" % step, len(CHANGES))]
        newv = S.int("new%d" % step, -5, 5)
        changed = False
        if what in ("a", "b", "c", "u"):
            changed = m.variables.get_machine_var(what) != newv
            m.variables.set_machine_var(what, newv)
        elif what in ("s1", "s2"):
            sv = (1, 2, 5)[S.choice("setting_value%d" % step, 3)]
            changed = m.settings.get_setting_value(what) != sv
            m.settings.set_setting_value(what, sv)
        elif what == "c1.value":
            before = c1.value
            m.events.post("c1_count")
            t.advance_time_and_run(0.01)
            changed = c1.value != before
        else:
            before = bool(c1.enabled)
            m.events.post("c1_disable" if c1.enabled else "c1_enable")
            t.advance_time_and_run(0.01)
            changed = bool(c1.enabled) != before
        t.advance_time_and_run(0.01)
        if changed and what in reads and not fut.done():
            raise Violation("subscriber-notified-after-change-of-read-input", {"a": "MachinePlaceholder.subscribe_attribute", "b": "MachinePlaceholder.subscribe_attribute", "u": "_eval_bin_op",
                                                                              "s1": "SettingsPlaceholder.subscribe_attribute", "s2": "SettingsPlaceholder.subscribe_attribute", "c1.value": "DeviceMonitor.__setattr__",
                                                                              "c1.enabled": "DeviceMonitor.__setattr__"}.get(what, "subscribe"),
                            "%s: input %s changed but the subscription future is not done" % (src, what))
        val, fut = tpl.evaluate_and_subscribe({})
        if val != py_value():
            raise Violation("never-acts-on-stale-value", "evaluate_and_subscribe", "%s after change of %s = %r, Python %r" % (src, what, val, py_value()))
        reads = reads_now()
    # conditional handler: fires iff the condition holds on the current values
    # (an earlier handler of the same post changes the value the condition reads: the condition counts when the handler's turn comes)
    fired = []
    a_new = S.int("a_set_by_earlier_handler", -5, 5)
    m.events.add_handler("probe", lambda **kwargs: m.variables.set_machine_var("a", a_new), priority=10)
    m.events.add_handler("probe{machine.a > machine.b}", lambda **kwargs: fired.append(1), priority=1)
    m.events.post("probe")
    t.advance_time_and_run(0.01)
    want = m.variables.get_machine_var("a") > m.variables.get_machine_var("b")
    if bool(fired) != bool(want):
        raise Violation("conditional-handler-acts-on-current-value", "EventManager._run_handlers", "probe{machine.a > machine.b}: fired=%s with a=%s b=%s" % (
            bool(fired), m.variables.get_machine_var("a"), m.variables.get_machine_var("b")))
    S.note("nontrivial", True)
    S.note("template", src)


PLAYER_FORMS = ["players[%d].score", 'players[%d]["score"]', "players[%d].score + 1", '(players[%d]["score"], 5)[0]', 'players[%d]["score"] > 10', "players[%d].score if players[%d].score else 7"]


def setup_players(part):
    t = stubs.boot("player_state")
    t.machine.playfield.add_ball = lambda **kwargs: None
    t.machine.ball_controller.num_balls_known = 3
    return t


def body_players(S, t, part):
    """attribute and index access on player values: players[k] of a player who is in the game gives that player's value, of a player who
    is not in the game the template's default - never somebody else's value"""
    m = t.machine
    pm = m.placeholder_manager
    n = part["players"]
    if m.game is not None:
        m.game.end_game()
        t.advance_time_and_run(2)
    for i in range(n):
        m.switch_controller.process_switch("s_start", 1, logical=True)
        m.switch_controller.process_switch("s_start", 0, logical=True)
        t.advance_time_and_run(0.1)
    t.advance_time_and_run(0.5)
    g = m.game
    if g is None or g.num_players != n:
        raise Violation("harness", "start", "game/players not as requested")
    scores = []
    for i in range(n):
        sc = S.int("score%d" % i, -20, 40)
        g.player_list[i].score = sc
        scores.append(sc)
    t.advance_time_and_run(0.01)
    form = PLAYER_FORMS[S.choice("form", len(PLAYER_FORMS))]
    k = S.choice("player_index", 4)
    src = form.replace("%d", str(k))
    tpl = pm.build_raw_template(src, -1000)
    got = tpl.evaluate({})
    if k < n:
        sk = scores[k]
        want = {0: sk, 1: sk, 2: sk + 1, 3: sk, 4: sk > 10, 5: sk if sk else 7}[PLAYER_FORMS.index(form)]
    else:
        want = -1000
    if got != want or type(got) is not type(want):
        raise Violation("evaluates-like-python" if k < n else "missing-variable-gives-default", "PlayerPlaceholder.__getitem__" if '["' in src else "PlayerPlaceholder.__getattr__",
                        "%s with %d player(s) (scores %s) = %r, expected %r" % (src, n, scores, got, want))
    cur = pm.build_raw_template('current_player["score"] + current_player.score', -1000).evaluate({})
    if cur != 2 * scores[g.player.index]:
        raise Violation("evaluates-like-python", "PlayerPlaceholder.__getitem__", "current_player score twice = %r, score %r" % (cur, scores[g.player.index]))
    S.note("nontrivial", True)
    S.note("in_game", bool(k < n))


def scenarios(tier):
    progs = _programs(tier)
    kind_sets = [("int", "int", "int"), ("real", "int", "bool"), ("int", "str", "int"), ("bool", "none", "int"), ("str", "str", "int")]
    if tier != "quick":
        kind_sets += [("real", "real", "real"), ("none", "int", "str"), ("int", "bool", "real")]
    eparts = [dict(src=p, kinds=list(k)) for p in progs for k in kind_sets]
    sparts = [dict(template=i, changes=1 if tier == "quick" else 2) for i in range(len(TEMPLATES))]
    pb = 40 if tier == "quick" else 120
    return [Scenario("expr", setup, body_expr, eparts, teardown=teardown, part_budget=pb, per_path_timeout=20),
            Scenario("players", setup_players, body_players, [dict(players=n) for n in (1, 2, 3)], teardown=teardown, part_budget=pb, per_path_timeout=30),
            Scenario("subscribe", setup, body_subscribe, sparts, teardown=teardown, part_budget=60 if tier == "quick" else 240, per_path_timeout=30)]
