"""C01 Event dispatch is complete, priority-ordered and serial. DESIGN.md section 2/C01."""
from collections import defaultdict

from engine.runner import Scenario
from engine.symdrv import Violation
from engine import stubs, symloop

ANCHORS = ["mpf/core/events.py", "mpf/core/delays.py", "mpf/core/switch_controller.py"]
FUNCTIONS = ["EventManager.add_handler", "EventManager.remove_handler_by_key", "EventManager.remove_handler",
             "EventManager.replace_handler", "EventManager.post", "EventManager._post", "EventManager._process_event",
             "EventManager._run_handlers", "EventManager.process_event_queue", "DelayManager._process_delay_callback",
             "SwitchController._process_active_timed_switches"]
EXPLANATION = ("Bounded symbolic execution (CrossHair/z3) of the real EventManager on a stub machine. A handler program "
               "(3 handlers on A, 2 on B, 1 on C; each A/B handler has an action: nothing, post B, post C, post B with callback, "
               "add a handler during dispatch, remove a sibling, re-post A once, replace itself, run a pending delay now whose callback posts) is run with symbolic integer priorities and kwargs, "
               "posted twice from a given context (direct, loop call_soon, delay callback, timed switch handler). A trace checker "
               "(not a re-implementation of the queue) decides completeness, order, kwargs merging, depth-first nesting and callbacks.")
NONTRIVIAL_RULE = "at least three event instances were dispatched and at least one handler posted a further event"
BOUNDS = {"quick": {"events": 3, "handlers": "6 static + <=2 added at run time", "actions": 6, "priorities": "unbounded ints", "posts": "<=12", "contexts": 4},
          "thorough": {"events": 3, "handlers": "6 static + <=3 added at run time", "actions": 9, "priorities": "unbounded ints", "posts": "<=16", "contexts": 4}}
ASSUMPTIONS = ["equal priorities: any relative order is accepted", "a handler removed before its turn may or may not run (statement leaves it open)",
               "_min_priority/blocking facilities, BCP monitoring and stop() are not exercised",
               "conditions are exercised through a stub condition object whose evaluate() returns a solver bool"]
BUDGET = {"quick": 100, "thorough": 600}

EV = ["A", "B", "C"]
ACTIONS = ["none", "post_B", "post_C", "post_B_cb", "add_same", "remove_sibling", "repost_A", "replace_self", "run_now"]


class Cond:
    """stub condition: a fixed verdict, or (threshold given) a verdict on the argument v the dispatcher hands in"""

    def __init__(self, val, threshold=None):
        self.val, self.threshold = val, threshold

    def evaluate(self, kwargs):
        if self.threshold is not None:
            return kwargs.get("v", -99) >= self.threshold
        return self.val


class FakeSwitch:
    def __init__(self):
        self.name, self.state, self.hw_state, self.last_change, self.invert = "s", 0, 0, -100000, 0
        self.is_muted, self.hw_switch, self.label, self.platform = False, self, "s", None
        self.number = 1

    def __hash__(self):
        return 7


def setup(part):
    stubs.shims()
    loop = symloop.new_loop()
    return loop


def teardown(loop):
    try:
        loop._ready.clear()
        loop._scheduled.clear()
        loop.close()
    except Exception:  # pylint: disable=broad-except
        pass


def body(S, loop, part):
    from mpf.core.events import EventManager
    from mpf.core.delays import DelayManager
    m = stubs.StubMachine(loop)
    em = EventManager(m)
    m.events = em
    acts = list(part["acts"])                  # actions of h0,h1 (concrete per partition)
    nact = part["nact"]
    while len(acts) < 4:                       # h2 (on A) and h3 (on B) chosen by the solver
        acts.append(S.choice("act%d" % len(acts), nact))
    dm0 = DelayManager(m)                      # a pending delay whose callback posts C: target of the run_now action
    ran_now = [0]
    acts += [0, 0]                             # h4 (B), h5 (C): no action
    slot_event = {0: "A", 1: "A", 2: "A", 3: "B", 4: "B", 5: "C"}
    prio = {i: S.int("p%d" % i, -10**6, 10**6) for i in range(5)}
    prio[5] = 1
    regv = {1: S.int("rv1", -5, 5), 3: S.int("rv3", -5, 5)}       # slots registered with a kwarg v
    cond_thr = None
    if part.get("cond_on_args"):
        # slot 2's condition reads the argument v, which slot 2 also registers: the registered value is what the handler gets,
        # so it is what the condition must be decided on
        regv[2] = S.int("rv2", -5, 5)
        cond_thr = S.int("cond_threshold", -5, 5)
        cond = {2: regv[2] >= cond_thr}
    else:
        cond = {2: S.bool("cond2")}                                # slot 2 has a condition
    trace = []           # ("h", iid, slot, seen_v) | ("cb", iid)
    posts = []           # iid -> dict(ev, parent, pv, cb)
    cur = [None]         # index in trace of the active handler / callback record
    active = [False]
    registry = defaultdict(set)          # model: event -> slots currently registered
    keys = {}
    snapshot = {}        # iid -> slots registered when its dispatch began
    removed_during = defaultdict(set)    # iid -> slots removed while iid was being dispatched
    cur_iid = [None]
    reposted = [False]
    dyn = [100]
    failures = []

    def post(ev, with_cb=False):
        iid = len(posts)
        pv = S.int("pv%d" % iid, -5, 5) if iid < 3 else iid
        posts.append(dict(ev=ev, parent=cur[0], pv=pv, cb=with_cb))
        if with_cb:
            em.post(ev, callback=mk_cb(iid), _iid=iid, v=pv)
        else:
            em.post(ev, _iid=iid, v=pv)

    def mk_cb(iid):
        def cb(**kwargs):
            if active[0]:
                failures.append(("no-nesting", "process_event_queue", "callback of %d ran inside a handler" % iid))
            trace.append(("cb", iid))
            prev = cur[0]
            cur[0] = len(trace) - 1
            if part.get("cb_posts") and iid == 0:
                post("C")
            cur[0] = prev
        return cb

    def register(slot, ev, act, priority, **kw):
        h = mk(slot, act)
        if slot in cond:
            # a conditional handler: condition object evaluated by the real dispatcher
            key = em.add_handler(ev, h, priority=priority, **kw)
            lst = em.registered_handlers[ev]
            for i, rh in enumerate(lst):
                if rh.key == key.key:
                    lst[i] = rh._replace(condition=Cond(cond[slot], cond_thr))
        else:
            key = em.add_handler(ev, h, priority=priority, **kw)
        keys[slot] = (key, h)
        registry[ev].add(slot)
        slot_event[slot] = ev
        return key

    def mk(slot, act):
        def handler(_iid, v, **kwargs):
            if active[0]:
                failures.append(("no-nesting", "_run_handlers", "handler %s entered while another handler is active" % slot))
            active[0] = True
            if _iid not in snapshot:
                snapshot[_iid] = set(registry[posts[_iid]["ev"]])
            trace.append(("h", _iid, slot, v))
            prev_cur, prev_iid = cur[0], cur_iid[0]
            cur[0], cur_iid[0] = len(trace) - 1, _iid
            a = ACTIONS[act]
            if slot_event[slot] == "B" and a in ("post_B", "post_B_cb"):
                a = "post_C"             # a B handler posting B would never terminate
            if a == "post_B":
                post("B")
            elif a == "post_C":
                post("C")
            elif a == "post_B_cb":
                post("B", with_cb=True)
            elif a == "add_same" and dyn[0] < 100 + part.get("maxdyn", 1):
                ns = dyn[0]
                dyn[0] += 1
                prio[ns] = S.int("p%d" % ns, -10**6, 10**6)
                register(ns, slot_event[slot], 0, prio[ns])
            elif a == "remove_sibling":
                # remove the next static sibling on the same event (never slot 0)
                for s2 in (1, 2, 4):
                    if s2 != slot and slot_event[s2] == slot_event[slot] and s2 in registry[slot_event[s2]]:
                        em.remove_handler_by_key(keys[s2][0])
                        registry[slot_event[s2]].discard(s2)
                        removed_during[_iid].add(s2)
                        break
            elif a == "repost_A" and not reposted[0]:
                reposted[0] = True
                post("A")
            elif a == "run_now" and ran_now[0] < 2:
                ran_now[0] += 1
                dm0.add(10000, lambda: post("C"), "pend")
                dm0.run_now("pend")
            elif a == "replace_self":
                key = em.replace_handler(slot_event[slot], keys[slot][1], priority=prio[slot], **({"v": regv[slot]} if slot in regv else {}))
                keys[slot] = (key, keys[slot][1])
                registry[slot_event[slot]].add(slot)          # replace_handler registers it (again) even if a sibling had removed it
            cur[0], cur_iid[0] = prev_cur, prev_iid
            active[0] = False
        return handler

    for s in range(6):
        kw = {"v": regv[s]} if s in regv else {}
        register(s, slot_event[s], acts[s], prio[s], **kw)

    # ---- drive from the partition's posting context ---------------------------------------------------------
    ctx = part["ctx"]

    def top_post(with_cb):
        post("A", with_cb=with_cb)

    cb0 = bool(S.bool("cbA"))
    if ctx == "direct":
        top_post(cb0)
        em.process_event_queue()
        top_post(False)
        em.process_event_queue()
    elif ctx == "loop":
        top_post(cb0)
        top_post(False)            # already waiting when the first is dispatched
        loop.run_for(0.1)
    elif ctx == "delay":
        dm = DelayManager(m)
        dm.add(100, lambda: top_post(cb0), "one")
        dm.add(200, lambda: top_post(False), "two")
        loop.run_for(1)
    elif ctx == "switch":
        from mpf.core.switch_controller import SwitchController
        sc = SwitchController(m)
        sw = FakeSwitch()
        sc.register_switch(sw)
        sc._initialized = True
        sc.add_switch_handler_obj(sw, lambda: top_post(cb0), state=1, ms=100)
        sc.add_switch_handler_obj(sw, lambda: top_post(False), state=1, ms=300)
        sc.process_switch_obj(sw, 1, True)
        loop.run_for(1)
    if em.event_queue or em.callback_queue:
        raise Violation("queue-drained", "process_event_queue", "events left in the queue after the drain site returned")
    if failures:
        raise Violation(*failures[0])

    # ---- trace oracle -------------------------------------------------------------------------------------
    per = defaultdict(list)
    for rec in trace:
        if rec[0] == "h":
            per[rec[1]].append(rec)
    hidx = [i for i, r in enumerate(trace) if r[0] == "h"]
    for iid, p in enumerate(posts):
        ran = [r[2] for r in per[iid]]
        snap = snapshot.get(iid, set())
        if not ran:
            raise Violation("delivered-to-every-registered-handler", "_process_event", "instance %d of %s was never dispatched" % (iid, p["ev"]))
        if len(set(ran)) != len(ran):
            raise Violation("delivered-exactly-once", "_run_handlers", "instance %d ran handlers %s" % (iid, ran))
        for s in ran:
            if s not in snap:
                raise Violation("handler-added-during-dispatch-not-run", "_run_handlers", "instance %d ran slot %s which was not registered when its dispatch began (%s)" % (iid, s, sorted(snap)))
        for s in snap:
            must = s not in removed_during[iid] and not (s in cond and not cond[s])
            if must and s not in ran:
                raise Violation("delivered-to-every-registered-handler", "_run_handlers", "instance %d of %s: slot %s registered at dispatch begin did not run (ran %s)" % (iid, p["ev"], s, ran))
            if s in cond and not cond[s] and s in ran:
                raise Violation("condition-respected", "_run_handlers", "slot %s ran although its condition is false" % s)
        for x, y in zip(per[iid], per[iid][1:]):
            if prio[x[2]] < prio[y[2]]:
                raise Violation("descending-priority", "add_handler", "instance %d: slot %s (prio %s) ran before slot %s (prio %s)" % (iid, x[2], prio[x[2]], y[2], prio[y[2]]))
        for r in per[iid]:
            want = regv[r[2]] if r[2] in regv else p["pv"]
            if r[3] != want:
                raise Violation("registered-kwargs-override-posted", "_run_handlers", "slot %s saw v=%s expected %s" % (r[2], r[3], want))
        # contiguity: handlers of one instance never interleave with another instance's handlers
        idxs = [i for i in hidx if trace[i][1] == iid]
        lo, hi = hidx.index(idxs[0]), hidx.index(idxs[-1])
        if hi - lo + 1 != len(idxs):
            raise Violation("no-interleaving", "process_event_queue", "handlers of instance %d are interleaved with another instance" % iid)
    # depth-first order
    children = defaultdict(list)
    roots = []
    for iid, p in enumerate(posts):
        if p["parent"] is None:
            roots.append(iid)
        else:
            children[p["parent"]].append(iid)          # keyed by trace index of the posting handler/callback
    first = {}
    for i in hidx:
        first.setdefault(trace[i][1], i)

    def inst_children(iid):
        out = []
        for i in hidx:
            if trace[i][1] == iid:
                out.extend(children[i])
        return out

    def dfs(iid, out):
        out.append(iid)
        for c in inst_children(iid):
            dfs(c, out)

    def descendants(iid):
        out = []
        dfs(iid, out)
        return out
    # children of a handler instance are dispatched depth-first right after the instance (before waiting events)
    for iid in range(len(posts)):
        sub = descendants(iid)
        order = sorted(sub, key=lambda k: first[k])
        if order != sub:
            raise Violation("depth-first-order", "process_event_queue", "subtree of instance %d dispatched as %s expected %s" % (iid, order, sub))
        blk = sorted(first[k] for k in sub)
        others = [first[k] for k in first if k not in sub and blk[0] < first[k] < blk[-1]]
        if others:
            raise Violation("posted-during-handling-before-waiting", "process_event_queue", "an event that was already waiting was dispatched inside the subtree of instance %d" % iid)
    # callbacks
    for iid, p in enumerate(posts):
        n = sum(1 for r in trace if r == ("cb", iid))
        if n != (1 if p["cb"] else 0):
            raise Violation("callback-exactly-once", "_process_event", "instance %d callback ran %d times" % (iid, n))
        if p["cb"]:
            at = trace.index(("cb", iid))
            last = max(i for i in hidx if trace[i][1] in descendants(iid))
            if at < last:
                raise Violation("callback-after-transitive-posts", "process_event_queue", "callback of instance %d ran before its descendants were dispatched" % iid)
    S.note("nontrivial", len(posts) >= 3 and any(p["parent"] is not None for p in posts))
    S.note("instances", len(posts))


def scenarios(tier):
    nact = 5 if tier == "quick" else 9
    quick_acts = [0, 1, 3, 4, 5, 8]
    ctxs = ["direct", "loop", "delay", "switch"]
    parts = []
    k = 0
    for a0 in (quick_acts if tier == "quick" else range(nact)):
        for a1 in (quick_acts if tier == "quick" else range(nact)):
            if tier == "quick":
                # h2/h3 actions and the context rotate deterministically over the partitions
                parts.append(dict(acts=[a0, a1, quick_acts[(a0 + 2 * a1 + 1) % 6], quick_acts[(2 * a0 + a1) % 6]], nact=nact, ctx=ctxs[k % 4], cb_posts=(k % 3 == 0),
                                  cond_on_args=(k % 2 == 1)))
                k += 1
            else:
                for a2 in range(nact):
                    parts.append(dict(acts=[a0, a1, a2, (a0 + a1 + a2) % nact], nact=nact, ctx=ctxs[k % 4], cb_posts=(k % 2 == 0), maxdyn=2, cond_on_args=(k % 3 == 1)))
                    k += 1
    return [Scenario("programs", setup, body, parts, teardown=teardown, part_budget=60 if tier == "quick" else 120, per_path_timeout=30)]
