"""C08 Coils are never driven beyond their configured safety limits. DESIGN.md section 2/C08."""
from engine.runner import Scenario
from engine.symdrv import Violation
from engine import stubs

ANCHORS = ["mpf/devices/driver.py", "mpf/core/platform_controller.py", "mpf/config_players/coil_player.py"]
FUNCTIONS = ["Driver.get_and_verify_pulse_ms/pulse_power/hold_power/timed_enable_ms", "Driver.pulse/_pulse_now", "Driver.enable/_enable_now",
             "Driver.timed_enable", "Driver.disable", "Driver._enable_limit_reached", "Driver.event_pulse/event_enable/event_timed_enable (control events with kwargs)",
             "CoilPlayer.play", "PlatformController._get_configured_driver_no_hold/_with_hold", "PlatformController.set_pulse_on_hit_rule",
             "PlatformController.set_pulse_on_hit_and_enable_and_release_rule"]
EXPLANATION = ("Bounded symbolic execution (CrossHair/z3) of the real coil device on a booted machine. The coil's safety envelope "
               "(max_pulse_ms, max_pulse_power, max_hold_power, default powers, allow_enable, max_hold_duration, default pulse) is replaced after boot "
               "by solver variables, the request parameters (pulse_ms in [-10,1000], powers in [-1,2] as reals, None) are solver variables, one entry "
               "point per partition; a monitor on the platform driver object / the platform's rule setters checks every command against the envelope and "
               "that refused requests produce no command; scenario 'timed' interleaves further operations at symbolic instants with a software-timed pulse "
               "and with max_hold_duration and checks the promised switch-off.")
NONTRIVIAL_RULE = "a command reached the platform driver and was checked against the envelope, or the request was refused with no command"
BOUNDS = {"entry_points": ["pulse", "enable", "timed_enable", "event_pulse", "event_enable", "coil_player pulse/enable", "hw rule pulse_on_hit", "hw rule pulse+enable", "light on a driver (DriverLight)", "flipper software flip"],
          "pulse_ms": "[-4,40] (and [250,262] around the platform max_pulse) int or None", "powers": "[-1,2] on the grid of quarters or None", "max_pulse_ms": "None or [1,30]", "limits": "[0,1] on the grid of quarters or None",
          "max_hold_duration_s": "None or [1,10] real", "timed scenario": "<=2 further operations at symbolic instants"}
ASSUMPTIONS = ["virtual platform boundary: serial platforms' own encoders are not executed", "platform max_pulse is 255 (virtual platform)",
               "error messages format the offending value (realisation): numeric domains are finite grids", "pulse_ms 0 is not treated as a refused request (statement: negative)", "PSU wait times: default PSU; max_wait_ms is None except in scenario deferred (busy supply, max_wait_ms in [0,400])",
               "'no future code path bypasses verification' is about code that does not exist: the claim covers the listed entry points"]
BUDGET = {"quick": 100, "thorough": 600}


def setup(part):
    return stubs.boot("coils")


def teardown(t):
    stubs.shutdown(t)


def _flag(S, part, name):
    fl = part.get("flags")
    if fl is not None and name in fl:
        return fl[name]
    return bool(S.bool(name))


def _quarter(S, name, lo, hi):
    """a real on the grid of quarters: error messages format the offending value, which realises it (finite enumeration)"""
    return S.int(name + "_quarters", int(lo * 4), int(hi * 4)) / 4.0


def _opt_real(S, part, name, lo, hi):
    return _quarter(S, name, lo, hi) if _flag(S, part, name + "_set") else None


def _envelope(S, c, part):
    cfg = c.config
    cfg['max_pulse_ms'] = S.int("max_pulse_ms", 1, 30 if part.get("wide") else 6) if _flag(S, part, "max_pulse_ms_set") else None
    cfg['max_pulse_power'] = _quarter(S, "max_pulse_power", 0, 1)
    cfg['max_hold_power'] = _opt_real(S, part, "max_hold_power", 0, 1)
    cfg['default_hold_power'] = _opt_real(S, part, "default_hold_power", 0, 1)
    cfg['default_pulse_power'] = _opt_real(S, part, "default_pulse_power", 0, 1)
    cfg['allow_enable'] = _flag(S, part, "allow_enable")
    c._pulse_ms = S.int("default_pulse_ms", 0, 35 if part.get("wide") else 8)
    return cfg


class Monitor:
    def __init__(self, t, c):
        self.cmds = []
        self.t = t
        drv = c.hw_driver
        drv.pulse = lambda ps: self.cmds.append(("pulse", t.loop.time(), ps.power, ps.duration, None, None))
        drv.enable = lambda ps, hs: self.cmds.append(("enable", t.loop.time(), ps.power, ps.duration, hs.power, None))
        drv.timed_enable = lambda ps, hs: self.cmds.append(("timed_enable", t.loop.time(), ps.power, ps.duration, hs.power, hs.duration))
        drv.disable = lambda: self.cmds.append(("disable", t.loop.time(), None, None, None, None))


def _check_envelope(cfg, cmds, allow_sw_pulse=True):
    for i, (kind, at, pp, pd, hp, hd) in enumerate(cmds):
        if kind == "disable":
            continue
        if pd is not None and pd < 0:
            raise Violation("no-negative-duration-reaches-driver", "get_and_verify_pulse_ms", "%s with pulse duration %s" % (kind, pd))
        if pp is not None and (pp < 0 or pp > 1):
            raise Violation("pulse-power-within-0-1", "get_and_verify_pulse_power", "%s with pulse power %s" % (kind, pp))
        if cfg['max_pulse_ms'] and pd is not None and pd > cfg['max_pulse_ms']:
            raise Violation("pulse-not-longer-than-max_pulse_ms", "get_and_verify_pulse_ms", "%s with pulse %s ms > max_pulse_ms %s" % (kind, pd, cfg['max_pulse_ms']))
        if cfg['max_pulse_power'] and pp is not None and pp > cfg['max_pulse_power']:
            raise Violation("pulse-power-not-above-max", "get_and_verify_pulse_power", "%s with pulse power %s > max %s" % (kind, pp, cfg['max_pulse_power']))
        if hp is not None:
            if hp < 0 or hp > 1:
                raise Violation("hold-power-within-0-1", "get_and_verify_hold_power", "%s with hold power %s" % (kind, hp))
            sw_pulse = kind == "enable" and pd == 0 and allow_sw_pulse       # software-timed pulse: checked by the 'timed' scenario
            if not sw_pulse:
                if cfg['max_hold_power'] and hp > cfg['max_hold_power']:
                    raise Violation("hold-power-not-above-max", "get_and_verify_hold_power", "%s with hold power %s > max_hold_power %s" % (kind, hp, cfg['max_hold_power']))
                may_hold = cfg['allow_enable'] or cfg['max_hold_power'] or cfg['default_hold_power']
                if hp > 0 and not may_hold:
                    raise Violation("held-only-if-configuration-allows", "get_and_verify_hold_power", "%s holds at %s but neither allow_enable nor a hold power is configured" % (kind, hp))


def _request_bad(cfg, pulse_ms, pulse_power, hold_power):
    """is the explicit request outside the envelope (must then be refused)?"""
    if pulse_ms is not None and (pulse_ms < 0 or (cfg['max_pulse_ms'] and pulse_ms > cfg['max_pulse_ms'])):
        return "pulse_ms %s" % pulse_ms
    if pulse_power is not None and (pulse_power < 0 or pulse_power > 1 or (cfg['max_pulse_power'] and pulse_power > cfg['max_pulse_power'])):
        return "pulse_power %s" % pulse_power
    if hold_power is not None and (hold_power < 0 or hold_power > 1 or (cfg['max_hold_power'] and hold_power > cfg['max_hold_power'])):
        return "hold_power %s" % hold_power
    return None


def body_request(S, t, part):
    from mpf.core.platform_controller import SwitchRuleSettings, DriverRuleSettings, PulseRuleSettings, HoldRuleSettings
    m = t.machine
    c = m.coils["c_main"]
    cfg = _envelope(S, c, part)
    mon = Monitor(t, c)
    entry = part["entry"]
    lo, hi = (250, 262) if part.get("big") else ((-4, 40) if part.get("wide") else (-3, 9))
    pulse_ms = S.int("pulse_ms", lo, hi) if _flag(S, part, "pulse_ms_given") else None
    pulse_power = _opt_real(S, part, "pulse_power", -1, 2)
    hold_power = _opt_real(S, part, "hold_power", -1, 2) if entry in ("enable", "timed_enable", "event_enable", "player_enable", "rule_hold") else None
    rules = []
    if entry.startswith("rule"):
        plat = c.platform
        plat.set_pulse_on_hit_rule = lambda sw, coil: rules.append(coil)
        plat.set_pulse_on_hit_and_enable_and_release_rule = lambda sw, coil: rules.append(coil)
    raised = None
    try:
        if entry == "pulse":
            c.pulse(pulse_ms, pulse_power)
        elif entry == "enable":
            c.enable(pulse_ms, pulse_power, hold_power)
        elif entry == "timed_enable":
            c.timed_enable(S.int("timed_enable_ms", 0, 2000) if S.bool("timed_ms_given") else None, hold_power, pulse_ms, pulse_power)
        elif entry in ("event_pulse", "event_enable"):
            kw = {}
            if pulse_ms is not None:
                kw["pulse_ms"] = pulse_ms
            if pulse_power is not None:
                kw["pulse_power"] = pulse_power
            if hold_power is not None:
                kw["hold_power"] = hold_power
            getattr(c, entry)(**kw)
        elif entry in ("player_pulse", "player_enable"):
            m.coil_player.play({c: dict(action="pulse" if entry == "player_pulse" else "enable", pulse_ms=pulse_ms, pulse_power=pulse_power,
                                        hold_power=hold_power, max_wait_ms=None)}, "verif", None)
        elif entry == "driver_light":
            # a light on this coil: brightness becomes the hold power of an enable command
            b = S.int("brightness", 0, 255)
            m.lights["l_drv"].color([b, b, b])
            t.advance_time_and_run(0.05)
        elif entry == "flipper_sw_flip":
            m.flippers["f_main"].enable()
            m.flippers["f_main"].sw_flip()
        elif entry == "rule_pulse":
            m.platform_controller.set_pulse_on_hit_rule(SwitchRuleSettings(m.switches["s_hit"], False, False), DriverRuleSettings(c, False),
                                                        PulseRuleSettings(pulse_power, pulse_ms))
        elif entry == "rule_hold":
            m.platform_controller.set_pulse_on_hit_and_enable_and_release_rule(
                SwitchRuleSettings(m.switches["s_hit"], False, False), DriverRuleSettings(c, False),
                PulseRuleSettings(pulse_power, pulse_ms), HoldRuleSettings(hold_power))
    except Exception as e:  # pylint: disable=broad-except
        raised = e
    try:
        t.advance_time_and_run(0.001)
    except Exception as e:  # pylint: disable=broad-except
        raised = raised or e
    cmds = list(mon.cmds)
    for r in rules:
        cmds.append(("timed_enable" if r.hold_settings else "pulse", 0, r.pulse_settings.power, r.pulse_settings.duration,
                     r.hold_settings.power if r.hold_settings else None, None))
    if raised is not None:
        if [x for x in cmds if x[0] != "disable"]:
            raise Violation("refused-request-produces-no-command", entry, "%s raised %s but commands %s reached the driver" % (entry, type(raised).__name__, cmds))
        S.note("nontrivial", True)
        S.note("outcome", "refused")
        return
    bad = _request_bad(cfg, pulse_ms, pulse_power, hold_power)
    if bad:
        raise Violation("request-outside-envelope-refused", "get_and_verify_" + bad.split()[0], "%s accepted %s (commands %s)" % (entry, bad, cmds))
    _check_envelope(cfg, cmds, allow_sw_pulse=entry in ("pulse", "event_pulse", "player_pulse"))
    S.note("nontrivial", bool(cmds))
    S.note("outcome", "accepted")


def body_timed(S, t, part):
    """software-timed pulse / max_hold_duration: the promised switch-off happens whatever else is done meanwhile"""
    m = t.machine
    c = m.coils["c_main"]
    S.now_symbolic(t.loop)
    c.config['allow_enable'] = True
    mode = part["mode"]
    mon = Monitor(t, c)
    t0 = t.loop.time()
    promised = None
    if mode == "sw_pulse":
        ms = S.int("pulse_ms", 256, 1000)
        c.pulse(ms)
        promised = t0 + ms / 1000.0
    else:
        dur = S.real("max_hold_duration_s", 1, 10)
        c.config['max_hold_duration'] = dur
        c.enable()
        promised = t0 + dur
    last_on = t0
    for i in range(part["n"]):
        gap = S.real("gap%d" % i, 0, 1.2 if mode == "sw_pulse" else 6)
        t.advance_time_and_run(gap)
        now = t.loop.time()
        S.assume(now != promised)
        op = S.choice("op%d" % i, 4)
        if op == 0:
            c.pulse(10)                  # hardware pulse in between
        elif op == 1:
            c.enable()
            if now < promised or mode != "sw_pulse":
                pass
            if mode == "hold" and now > promised:
                promised = now + c.config['max_hold_duration']      # a new hold period after the limit fired
            elif mode == "sw_pulse" and now > promised:
                promised = None          # an explicit, allowed enable after the pulse ended: nothing promised any more
                break
        elif op == 2:
            c.disable()
            if mode == "hold":
                promised = None          # explicitly switched off: a later enable starts a new period
                break
        else:
            if mode == "sw_pulse":
                ms2 = S.int("pulse_ms_b%d" % i, 256, 1000)
                c.pulse(ms2)
                promised = now + ms2 / 1000.0       # a newer software-timed pulse promises its own end
    if promised is None:
        S.note("nontrivial", False)
        return
    t.advance_time_and_run(12)
    # the coil must be off at the promised instant: a disable at an instant <= promised and no switch-on after it until then
    state_on_at_promise = None
    for kind, at, pp, pd, hp, hd in mon.cmds:
        if at <= promised:
            if kind == "disable":
                state_on_at_promise = False
            elif kind == "enable":
                state_on_at_promise = True
            elif kind == "pulse":
                state_on_at_promise = False          # a hardware pulse ends by itself (10 ms)
    if state_on_at_promise:
        raise Violation("switched-off-when-time-is-up", "Driver._pulse_now" if mode == "sw_pulse" else "Driver._enable_limit_reached",
                        "coil still on at the promised instant +%s; commands %s" % (promised - t0, [(k, a - t0) for k, a, *_ in mon.cmds]))
    S.note("nontrivial", True)
    S.note("cmds", len(mon.cmds))


def body_deferred(S, t, part):
    """a request carrying max_wait_ms while the power supply is busy is executed later (PSU optimisation, the path ball-device
    ejectors use): the switch-off promise counts from the instant the coil is really switched on"""
    m = t.machine
    c = m.coils["c_main"]
    S.now_symbolic(t.loop)
    c.config['allow_enable'] = True
    c.config['psu']._busy_until = None
    mode = part["mode"]
    mon = Monitor(t, c)
    t0 = t.loop.time()
    busy_ms = S.int("busy_pulse_ms", 1, 200)
    c.pulse(busy_ms)                                   # a hardware pulse keeps the supply busy
    gap = S.real("gap", 0, 0.3)
    t.advance_time_and_run(gap)
    wait = S.int("max_wait_ms", 0, 400) if S.bool("max_wait_given") else None
    if mode == "hold":
        dur = S.real("max_hold_duration_s", 1, 10)
        c.config['max_hold_duration'] = dur
        c.enable(max_wait_ms=wait)
    else:
        ms = S.int("pulse_ms", 256, 1000)
        dur = ms / 1000.0
        c.pulse(ms, max_wait_ms=wait)
    asked = t.loop.time()
    t.advance_time_and_run(14)
    ons = [at for kind, at, *_ in mon.cmds if kind == "enable"]
    if len(ons) != 1:
        raise Violation("accepted-request-is-executed-once", "Driver.enable" if mode == "hold" else "Driver.pulse",
                        "%d switch-on commands for one accepted request; commands %s" % (len(ons), [(k, a - t0) for k, a, *_ in mon.cmds]))
    on = ons[0]
    if wait is not None and on > asked + wait / 1000.0:
        raise Violation("deferred-no-longer-than-max-wait", "PowerSupplyUnit.get_wait_time_for_pulse",
                        "switched on %s s after the request, max_wait_ms %s" % (on - asked, wait))
    offs = [at for kind, at, *_ in mon.cmds if kind == "disable" and at >= on]
    if not offs or offs[0] > on + dur:
        raise Violation("switched-off-when-time-is-up", "Driver._enable_limit_reached" if mode == "hold" else "Driver._pulse_now",
                        "deferred request (max_wait_ms %s): switched on at +%s, promised off %s s later, disable commands at %s" % (
                            wait, on - t0, dur, [a - t0 for a in offs]))
    S.note("nontrivial", True)
    S.note("deferred", on > asked)


def scenarios(tier):
    entries = ["pulse", "enable", "timed_enable", "event_pulse", "event_enable", "player_pulse", "player_enable", "rule_pulse", "rule_hold"]
    extra = ["driver_light", "flipper_sw_flip"]
    allset = dict(max_pulse_ms_set=True, max_hold_power_set=True, default_hold_power_set=True, default_pulse_power_set=True,
                  pulse_ms_given=True, pulse_power_set=True, hold_power_set=True)
    sparse = dict(max_pulse_ms_set=False, max_hold_power_set=False, default_hold_power_set=True, default_pulse_power_set=False,
                  pulse_ms_given=True, pulse_power_set=True, hold_power_set=False)
    if tier == "quick":
        parts = [dict(entry=e, flags=f) for e in entries for f in (allset, sparse)]
        parts += [dict(entry="pulse", flags=dict(sparse, allow_enable=False), big=True)]
        parts += [dict(entry=e, flags=dict(allset, pulse_ms_given=False, pulse_power_set=False, hold_power_set=False)) for e in extra]
    else:
        parts = []
        for e in entries:
            for k in range(16):
                parts.append(dict(entry=e, flags=dict(max_pulse_ms_set=bool(k & 1), max_hold_power_set=bool(k & 2), default_hold_power_set=bool(k & 4),
                                                       default_pulse_power_set=bool(k & 8)), wide=True))
        parts += [dict(entry=e, flags=dict(sparse), big=True) for e in ("pulse", "event_pulse", "player_pulse")]
        parts += [dict(entry=e, flags=dict(max_pulse_ms_set=bool(k & 1), max_hold_power_set=bool(k & 2), default_hold_power_set=bool(k & 4), pulse_ms_given=False,
                                           pulse_power_set=False, hold_power_set=False), wide=True) for e in extra for k in range(8)]
    n = 1 if tier == "quick" else 2
    timed = [dict(mode="sw_pulse", n=n), dict(mode="hold", n=n)]
    pb = 80 if tier == "quick" else 300
    return [Scenario("request", setup, body_request, parts, teardown=teardown, part_budget=pb, per_path_timeout=30),
            Scenario("timed", setup, body_timed, timed, teardown=teardown, part_budget=pb, per_path_timeout=30),
            Scenario("deferred", setup, body_deferred, [dict(mode="hold"), dict(mode="sw_pulse")], teardown=teardown, part_budget=pb, per_path_timeout=30)]
