"""C20 Credits: balance follows the pricing table and stays within bounds. DESIGN.md section 2/C20."""
from engine.runner import Scenario
from engine.symdrv import Violation
from engine import stubs

ANCHORS = ["mpf/modes/credits/code/credits.py", "mpf/core/machine_vars.py", "mpf/core/settings_controller.py",
           "mpf/modes/game/code/game.py"]
FUNCTIONS = ["Credits._calculate_credit_units", "Credits._calculate_pricing_tiers", "Credits._add_credit_units",
             "Credits._credit_switch_callback", "Credits._credit_event_callback", "Credits._service_credit_callback",
             "Credits._player_add_request", "Credits._request_to_start_game", "Credits._player_added",
             "Credits._clear_fractional_credits", "Credits.clear_all_credits", "Credits._reset_timeouts",
             "Credits._game_started/_game_ended", "Credits.toggle_credit_play/enable_free_play/enable_credit_play",
             "Credits._audit/_audit_event", "Game.request_player_add (via start switch)"]
EXPLANATION = ("Bounded symbolic execution (CrossHair/z3) of the real credits mode on a booted machine. 'step': inductive "
               "step from a symbolic pre-state (balance u, tier progress c, max_credits all solver variables) through one "
               "arbitrary operation; 'history': operation sequences from boot with symbolic max_credits, operation choices "
               "and real-valued waits. Oracle: an independent ledger written from the statement (greedy tier table with "
               "wrap-around, cap, one price per player, expiry times).")
NONTRIVIAL_RULE = "at least one credit-changing operation was executed and the ledger comparison ran"
BOUNDS = {"quick": {"pricing_configs": "4 (+1 booted in free play)", "max_credits": "[0,6] symbolic", "history_len": 3, "wait_s": "[0,10800] real"},
          "thorough": {"pricing_configs": "4 (+1 booted in free play)", "max_credits": "[0,6] symbolic", "history_len": 5, "wait_s": "[0,10800] real"}}
ASSUMPTIONS = ["a wait that ends exactly on an expiry deadline is assumed away", "tier progress restarts at every game start and once more per game when player 1's second ball starts (Credits._ball_starting; upstream rule: coins added during ball 1 still count towards the tier of the purchase that started the game); no free-play toggles in the partitions that end balls",
               "coin values are multiples of 1/4 (exact in binary floating point), three fixed pricing configurations",
               "max_credits: 0 means unlimited (as the code documents); balls are faked (playfield.add_ball stubbed)",
               "one configuration is booted in free play (free_play: yes) and then switched to credit play", "free-play mode: coins are not wired at all (handlers removed), so the ledger ignores coins while in free play; a game "
               "started in free play does not suspend the expiry periods (the statement is about credit play)",
               "nothing expires during a credit-play game, whichever credits arrive during it (test_CreditsMode: 'but not during game')"]
BUDGET = {"quick": 100, "thorough": 600}

TIERS = {"a": [(2, 1), (8, 5)], "b": [(3, 1)], "c": [(4, 1), (12, 4), (20, 8)], "d": [(3, 1)]}      # (price in units of .25, credits)
UPG = {"a": 2, "b": 3, "c": 4, "d": 3}
COIN_UNITS = {"d": (2, 4)}          # config d: the small coin is 0.50 with a 0.75 game (coin between half the price and the price)


class SymTemplate:
    def __init__(self, v):
        self.v = v

    def evaluate(self, *a, **k):
        return self.v

    evaluate_or_none = evaluate


def ref_units_for(cfg, money_units):
    """Statement-level pricing table: credit units bought by `money_units` quarter-units inserted in one go."""
    tiers = TIERS[cfg]
    upg = UPG[cfg]
    wrap = tiers[-1][0]
    total = (money_units // wrap) * tiers[-1][1] * upg
    rem = money_units % wrap
    for price, creds in reversed(tiers):
        while rem >= price:
            rem -= price
            total += creds * upg
    return total + rem


def setup(part):
    t = stubs.boot("credits", "config_%s%s.yaml" % (part["cfg"], "f" if part.get("boot_free") else ""))
    t.machine.playfield.add_ball = lambda **kwargs: None
    t.machine.ball_controller.num_balls_known = 3
    return t


def teardown(t):
    stubs.shutdown(t)


def _mode(t):
    return t.machine.modes["credits"]


def _units(t):
    v = t.machine.variables.get_machine_var("credit_units")
    return v if v else 0


class Ledger:
    """Reference model written from the statement."""

    def __init__(self, cfg, maxc, units=0, c=0, free=False):
        self.cfg, self.upg = cfg, UPG[cfg]
        self.max_units = maxc * self.upg
        self.units, self.c = units, c
        self.wrap = TIERS[cfg][-1][0]
        self.players = 0
        self.free = free
        self.money = 0          # quarter-units accepted
        self.coins = 0
        self.last_activity = None
        self.in_game = False
        self.frac_done = False
        self.ball, self.cur, self.tier_reset_done = 0, 0, False

    def _cap(self, prev, new):
        if self.max_units > 0:
            if prev >= self.max_units:
                return prev
            return min(new, self.max_units)
        return new

    def _activity(self, now):
        """a coin or credit event restarts both expiry periods - except during a game, where nothing expires"""
        if not self.in_game:
            self.last_activity = now
            self.frac_done = False

    def coin(self, q, now):
        if self.free:
            return
        self.money += q
        self.coins += 1
        add = ref_units_for(self.cfg, self.c + q) - ref_units_for(self.cfg, self.c)
        self.units = self._cap(self.units, self.units + add)
        self.c = (self.c + q) % self.wrap
        self._activity(now)

    def service(self, now):
        if self.free:
            return
        self.units = self._cap(self.units, self.units + self.upg)

    def award(self, now):
        if self.free:
            return
        self.units = self._cap(self.units, self.units + self.upg)
        self._activity(now)

    def start(self, max_players=3):
        """returns True if a player must be added"""
        if self.in_game and (self.players >= max_players or self.ball > 1):
            return False            # players join during ball 1 only (Game.request_player_add)
        if self.free:
            ok = True
        else:
            ok = self.units >= self.upg
            if ok:
                self.units -= self.upg
        if ok:
            self.players += 1
            if not self.in_game:
                self.in_game = True
                self.ball, self.cur, self.tier_reset_done = 1, 1, False
                if not self.free:
                    # a game started in free play does not involve the credits mode at all: periods keep running
                    self.c = 0
                    self.last_activity = None
        return ok

    def tick(self, S, now):
        """expiry: fractional credits 15 min, all credits 2 h after the last coin / game end, not during a game"""
        if self.last_activity is None:
            return
        d1, d2 = self.last_activity + 900, self.last_activity + 7200
        S.assume(now != d1)
        S.assume(now != d2)
        if now > d1 and not self.frac_done:
            self.units -= self.units % self.upg
            self.frac_done = True
        if now > d2:
            self.units = 0
            self.c = 0
            self.last_activity = None

    def end_ball(self, balls_per_game=3):
        """the turn passes on; returns True when that was the last ball of the game. Tier progress restarts once more per game, when
        player 1's second ball starts (coins dropped in during ball 1 still belong to the purchase that started the game)"""
        if self.cur < self.players:
            self.cur += 1
        else:
            self.cur, self.ball = 1, self.ball + 1
        if self.ball > balls_per_game:
            return True
        if self.cur == 1 and self.ball == 2 and not self.free and not self.tier_reset_done:
            self.c = 0
            self.tier_reset_done = True
        return False

    def end_game(self, now):
        if self.in_game:
            self.in_game = False
            self.players = 0
            if not self.free:
                self.last_activity = now
                self.frac_done = False


def _compare(t, led, what):
    u = _units(t)
    if u < 0:
        raise Violation("balance-never-negative", "_player_added", "%s: credit_units %s" % (what, u))
    if led.max_units > 0 and u > led.max_units and not led.free:
        raise Violation("balance-never-exceeds-max", "_add_credit_units", "%s: credit_units %s > max %s" % (what, u, led.max_units))
    if u != led.units:
        raise Violation("balance-follows-pricing-table", "_add_credit_units" if "coin" in what or "service" in what or "award" in what else what.split()[0],
                        "%s: credit_units %s, ledger %s" % (what, u, led.units))


def _hit(t, name):
    t.machine.switch_controller.process_switch(name, 1, logical=True)
    t.machine.switch_controller.process_switch(name, 0, logical=True)
    t.advance_time_and_run(0.01)


OPS = ["coin_q", "coin_d", "service", "start", "end_game", "end_ball", "wait", "toggle", "award", "enable_credit", "enable_free", "double_start"]


def _apply(S, t, led, op, i):
    m = t.machine
    now = t.loop.time()
    players_before = m.game.num_players if m.game else 0
    if op == "coin_q":
        _hit(t, "s_left_coin")
        led.coin(COIN_UNITS.get(led.cfg, (1, 4))[0], now)
    elif op == "coin_d":
        _hit(t, "s_right_coin")
        led.coin(COIN_UNITS.get(led.cfg, (1, 4))[1], now)
    elif op == "service":
        _hit(t, "s_esc")
        led.service(now)
    elif op == "award":
        m.events.post("award_credit")
        t.advance_time_and_run(0.01)
        led.award(now)
    elif op == "start":
        u_before = _units(t)
        _hit(t, "s_start")
        t.advance_time_and_run(0.5)
        want = led.start()
        players_after = m.game.num_players if m.game else 0
        added = players_after - players_before
        if want and added != 1:
            raise Violation("start-accepted-iff-price-available", "_request_to_start_game", "full price available (units %s) but %d player(s) added" % (u_before, added))
        if not want and added != 0:
            raise Violation("start-accepted-iff-price-available", "_player_add_request", "no full price (units %s) but %d player(s) added" % (u_before, added))
    elif op == "double_start":
        # two start presses that reach MPF in the same loop iteration (bouncing button, two presses in one serial read)
        m.switch_controller.process_switch("s_start", 1, logical=True)
        m.switch_controller.process_switch("s_start", 0, logical=True)
        m.switch_controller.process_switch("s_start", 1, logical=True)
        m.switch_controller.process_switch("s_start", 0, logical=True)
        t.advance_time_and_run(0.5)
        was_in_game = led.in_game
        want = 0
        for _ in range(2):
            if led.start():
                want += 1
            if not was_in_game:
                break           # no game yet: both presses ask for the same game start, one game with one player results
        added = (m.game.num_players if m.game else 0) - players_before
        if added != want:
            raise Violation("start-accepted-iff-price-available", "_player_add_request", "two start presses in one loop iteration with %s unit(s) (price %s): %d player(s) added, the balance pays for %d" % (
                _units(t) if False else led.units + want * led.upg, led.upg, added, want))
    elif op == "end_ball":
        if m.game:
            ended_at = [None]
            key = m.events.add_handler("mode_game_stopped", lambda **kwargs: ended_at.__setitem__(0, t.loop.time()), priority=10**6)
            m.game.end_ball()
            t.advance_time_and_run(0.5)
            m.events.remove_handler_by_key(key)
            over = led.end_ball()
            if over != (m.game is None):
                raise Violation("harness", "end_ball", "ledger says game over %s, machine game %s (ball %s player %s)" % (over, m.game, led.ball, led.cur))
            if over:
                led.end_game(ended_at[0])
            elif (m.game.player.number, m.game.player.ball) != (led.cur, led.ball):
                raise Violation("harness", "end_ball", "ledger at player %s ball %s, machine at player %s ball %s" % (led.cur, led.ball, m.game.player.number, m.game.player.ball))
    elif op == "end_game":
        ended_at = [t.loop.time()]
        if m.game:
            # the expiry periods restart at the instant the game mode has stopped (not when this operation returns)
            key = m.events.add_handler("mode_game_stopped", lambda **kwargs: ended_at.__setitem__(0, t.loop.time()), priority=10**6)
            m.game.end_game()
            t.advance_time_and_run(0.5)
            m.events.remove_handler_by_key(key)
            if m.game is not None:
                raise Violation("harness", "end_game", "game did not end")
        led.end_game(ended_at[0])
    elif op == "toggle":
        m.events.post("toggle_credit_play")
        t.advance_time_and_run(0.01)
        led.free = not led.free
        if not led.free and led.in_game is False:
            pass
    elif op in ("enable_credit", "enable_free"):
        # the explicit forms of the toggle; posting the one that is already in force must change nothing
        m.events.post("enable_credit_play" if op == "enable_credit" else "enable_free_play")
        t.advance_time_and_run(0.01)
        led.free = op == "enable_free"
    elif op == "wait":
        gap = S.real("wait%d" % i, 0, 10800)
        t.advance_time_and_run(gap)
    led.tick(S, t.loop.time())
    _compare(t, led, "%s #%d" % (op, i))


def _symbolic_max(S, t):
    maxc = S.int("max_credits", 0, 6)
    _mode(t).credits_config['max_credits'] = SymTemplate(maxc)
    return maxc


def _audits(t, led):
    e = _mode(t).earnings
    money = e.get('2 Total Earnings money', 0)
    coins = e.get('1 Total Coins money', 0)
    if money != led.money * 0.25 or coins != led.coins:
        raise Violation("earnings-equal-coins-accepted", "_audit", "earnings %s/%s coins, ledger %s/%s" % (money, coins, led.money * 0.25, led.coins))


def body_history(S, t, part):
    S.now_symbolic(t.loop)
    maxc = _symbolic_max(S, t)
    led = Ledger(part["cfg"], maxc, free=bool(part.get("boot_free")))
    ops = list(part["prefix"])
    n = part["n"]
    changed = False
    for i in range(n):
        if i < len(ops):
            op = ops[i]
        else:
            op = part["alphabet"][S.choice("op%d" % i, len(part["alphabet"]))]
        before = led.units
        _apply(S, t, led, op, i)
        changed = changed or led.units != before
    _audits(t, led)
    if part.get("tier_progress") and not led.free and _mode(t).credit_units_for_pricing_tiers % led.wrap != led.c:
        raise Violation("tier-progress", "_reset_pricing_tier_credits", "tier progress %s, ledger %s after %s" % (_mode(t).credit_units_for_pricing_tiers, led.c, ops))
    S.note("nontrivial", changed)
    S.note("final_units", led.units)


def body_step(S, t, part):
    """Inductive step: arbitrary pre-state (u, c, max), one operation."""
    cfg = part["cfg"]
    S.now_symbolic(t.loop)
    maxc = _symbolic_max(S, t)
    upg = UPG[cfg]
    u = S.int("pre_units", 0, 6 * upg + 2)
    c = S.int("pre_tier_progress", 0, TIERS[cfg][-1][0] - 1)
    S.assume(maxc == 0 or u <= maxc * upg)
    mode = _mode(t)
    t.machine.variables.set_machine_var("credit_units", u)
    mode.credit_units_for_pricing_tiers = c
    led = Ledger(cfg, maxc, units=u, c=c)
    _apply(S, t, led, part["op"], 0)
    if part["op"] in ("coin_q", "coin_d"):
        if mode.credit_units_for_pricing_tiers % led.wrap != led.c:
            raise Violation("tier-progress", "_add_credit_units", "tier progress %s ledger %s" % (mode.credit_units_for_pricing_tiers, led.c))
    S.note("nontrivial", True)
    S.note("op", part["op"])


def scenarios(tier):
    step_parts = [dict(cfg=c, op=o) for c in "abcd" for o in ("coin_q", "coin_d", "service", "start", "award")]
    if tier == "quick":
        alpha = ["coin_q", "coin_d", "service", "start", "end_game", "wait"]
        hist = [dict(cfg=c, prefix=[p], n=3, alphabet=alpha) for c in "abc" for p in ("coin_d", "coin_q", "toggle")]
        hist += [dict(cfg="a", prefix=["service", "start", "award"], n=4, alphabet=["wait", "end_game"]),
                 dict(cfg="b", prefix=["coin_d", "coin_d", "start", "coin_q"], n=5, alphabet=["wait", "end_game"]),
                 dict(cfg="b", prefix=["coin_d", "wait", "toggle", "start"], n=5, alphabet=["wait", "toggle"]),
                 dict(cfg="b", boot_free=True, prefix=["toggle"], n=3, alphabet=["coin_q", "coin_d", "service", "start"]),
                 dict(cfg="b", prefix=["enable_credit"], n=3, alphabet=["coin_q", "coin_d", "service", "start", "enable_credit"]),
                 dict(cfg="a", prefix=["coin_d", "enable_free", "enable_free", "enable_credit"], n=6, alphabet=["coin_q", "start", "award"]),
                 dict(cfg="b", prefix=["coin_d", "start", "coin_d", "double_start"], n=5, alphabet=["double_start", "start", "coin_q"]),
                 dict(cfg="a", prefix=["coin_q", "double_start"], n=4, alphabet=["double_start", "start", "coin_q"]),
                 dict(cfg="d", prefix=["coin_q"], n=3, alphabet=alpha), dict(cfg="d", prefix=["coin_d"], n=3, alphabet=alpha),
                 # tier progress across games: it restarts at a game start and once more when player 1's second ball starts
                 dict(cfg="a", prefix=["coin_d", "start", "end_ball", "end_game", "coin_d", "start"], n=8, alphabet=["coin_d", "coin_q", "end_ball"], tier_progress=True),
                 dict(cfg="c", prefix=["coin_d", "start", "coin_d", "start", "end_ball"], n=9, alphabet=["coin_d", "coin_q", "end_ball", "start"], tier_progress=True),
                 dict(cfg="a", prefix=["service", "start"], n=7, alphabet=["coin_d", "end_ball", "end_game", "start"], tier_progress=True)]
    else:
        alpha = ["coin_q", "coin_d", "service", "start", "end_game", "wait", "toggle", "award", "enable_credit", "enable_free", "double_start"]
        hist = [dict(cfg=c, prefix=[p, q], n=4, alphabet=alpha) for c in "abc" for p in ("coin_d", "coin_q", "service")
                for q in ("coin_d", "coin_q", "start", "wait")]
        hist += [dict(cfg="b", boot_free=True, prefix=[p], n=4, alphabet=alpha) for p in ("toggle", "enable_credit", "start")]
        balls = ["coin_d", "coin_q", "end_ball", "end_game", "start", "service"]
        hist += [dict(cfg=c, prefix=["coin_d", "start"] + q, n=len(q) + 7, alphabet=balls, tier_progress=True) for c in "ac"
                 for q in ([], ["end_ball"], ["coin_d", "start", "end_ball"], ["end_ball", "end_game", "coin_d", "start"])]
    return [Scenario("step", setup, body_step, step_parts, teardown=teardown, part_budget=80 if tier == "quick" else 200, per_path_timeout=30),
            Scenario("history", setup, body_history, hist, teardown=teardown, part_budget=80 if tier == "quick" else 400, per_path_timeout=30)]
