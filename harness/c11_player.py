"""C11 Player state is isolated per player and restored on their next turn. DESIGN.md section 2/C11."""
from engine.runner import Scenario
from engine.symdrv import Violation
from engine import stubs

ANCHORS = ["mpf/core/player.py", "mpf/devices/logic_blocks.py", "mpf/core/enable_disable_mixin.py", "mpf/devices/timer.py",
           "mpf/core/mode_controller.py", "mpf/config_players/variable_player.py"]
FUNCTIONS = ["Player.__setattr__/__getattr__/__setitem__/_send_variable_event", "Player.add_with_kwargs", "LogicBlock.device_loaded_in_mode/device_removed_from_mode",
             "Counter.count", "Accrual.hit", "Timer.device_loaded_in_mode/ticks setter", "ModeController game-mode start per ball (player handed to modes)",
             "VariablePlayer.play (score / int entries)", "Game._rotate_players / player creation with player_vars initial values"]
EXPLANATION = ("Bounded symbolic execution (CrossHair/z3) of a booted machine with a fake game, a game mode holding a persisted counter, a persisted accrual, a "
               "non-persisted counter, a timer with a player tick variable and a variable_player entry. The number of players, the number of counter hits, the accrual "
               "steps, the score additions (symbolic ints) and the duration of every turn (symbolic real) are solver variables. A shadow record per player is compared "
               "at every ball start (state restored exactly) and the other players' variable dictionaries are compared before/after every turn (isolation); the unit part "
               "sets a player variable twice with symbolic values and checks the player_<var> event arguments.")
NONTRIVIAL_RULE = "at least two turns were played and a persisted device state was compared after restoration"
BOUNDS = {"quick": {"players": "[1,3]", "balls_per_game": 2, "hits_per_turn": "[0,3]", "score_add": "[-50,50]", "turn_s": "[0,3] real"},
          "thorough": {"players": "[1,3]", "balls_per_game": 2, "hits_per_turn": "[0,4]", "score_add": "[-50,50]", "turn_s": "[0,4] real", "extra_ball/early end": "symbolic flags"}}
ASSUMPTIONS = ["balls are faked", "shots/achievements/persisted enable flags are not in the quick machine config (logic blocks, timer tick variable and player variables are)",
               "a turn that ends exactly on a timer tick is assumed away"]
BUDGET = {"quick": 100, "thorough": 600}


def setup(part):
    t = stubs.boot("player_state")
    t.machine.playfield.add_ball = lambda **kwargs: None
    t.machine.ball_controller.num_balls_known = 3
    return t


def teardown(t):
    stubs.shutdown(t)


def _initials(player, where):
    """configured initial values that happen to be falsy are initial values like any other: present, of the declared type"""
    for name, typ, val in (("tag", str, ""), ("ratio", float, 0.0), ("zero", int, 0), ("bonus", int, 7)):
        if not player.is_player_var(name) or type(player[name]) is not typ or player[name] != val:
            raise Violation("new-game-starts-from-configured-initial-values", "Player._load_initial_player_vars",
                            "%s: player %s variable %s is %r (%s, defined: %s), configured initial value %r (%s)" % (
                                where, player.number, name, player[name], type(player[name]).__name__, player.is_player_var(name), val, typ.__name__))


def body_game(S, t, part):
    m = t.machine
    S.now_symbolic(t.loop)
    n = part["players"]
    events = []
    m.events.add_handler("player_score", lambda **kwargs: events.append(("score", kwargs)))
    for i in range(n):
        m.switch_controller.process_switch("s_start", 1, logical=True)
        m.switch_controller.process_switch("s_start", 0, logical=True)
        t.advance_time_and_run(0.1)
    t.advance_time_and_run(0.5)
    g = m.game
    if g is None or g.num_players != n:
        raise Violation("harness", "start", "game/players not as requested")
    # between two balls (mode stopped, next turn not started) stray device events must not touch anybody's persisted state
    def stray(**kwargs):
        m.events.post("pa_s2")
        m.events.post("pc_hit")
    m.events.add_handler("ball_ended", stray)
    shadow = {p: dict(pc=10, pa=[False, False, False], score=0, awards=0, bonus=7, custom=None, shot=True) for p in range(1, n + 1)}
    if S.bool("display_reads_enable_flags_early"):
        # something (a display, a placeholder) reads every player's persisted enable flag before the player's first ball: reading changes nothing
        for q in range(n):
            _ = g.player_list[q].shot_ps_enabled
    for pl in m.game.player_list:
        _initials(pl, "first game")
    turns = 0
    restored_checked = 0
    for ball in (1, 2):
        for p in range(1, n + 1):
            if m.game is None:
                raise Violation("game-runs", "Game._run", "game ended early at ball %d player %d" % (ball, p))
            g = m.game
            if g.player.number != p or g.player.ball != ball:
                raise Violation("turn-order", "Game._rotate_players", "expected player %d ball %d, got player %s ball %s" % (p, ball, g.player.number, g.player.ball))
            pc, pa = m.counters["pc"], m.accruals["pa"]
            # ---- restoration: what this player accumulated is back exactly ----
            sh = shadow[p]
            if pc.value != sh["pc"]:
                raise Violation("persisted-state-restored-on-next-turn", "LogicBlock.device_loaded_in_mode", "player %d ball %d: counter value %s, the player had %s" % (p, ball, pc.value, sh["pc"]))
            if list(pa.value) != sh["pa"]:
                raise Violation("persisted-state-restored-on-next-turn", "LogicBlock.device_loaded_in_mode", "player %d ball %d: accrual %s, the player had %s" % (p, ball, list(pa.value), sh["pa"]))
            if bool(m.shots["ps"].enabled) != sh["shot"]:
                raise Violation("new-game-starts-from-configured-initial-values" if ball == 1 else "persisted-state-restored-on-next-turn", "EnableDisableMixin.device_loaded_in_mode",
                                "player %d ball %d: shot ps enabled=%s, expected %s (start_enabled: true, disabled by this player: %s)" % (p, ball, m.shots["ps"].enabled, sh["shot"], not sh["shot"]))
            if m.counters["pc_fresh"].value != 0:
                raise Violation("non-persisted-state-starts-fresh", "LogicBlock.device_loaded_in_mode", "non-persisted counter starts at %s" % m.counters["pc_fresh"].value)
            if g.player.score != sh["score"] or g.player["awards"] != sh["awards"] or g.player["bonus"] != sh["bonus"]:
                raise Violation("player-variables-restored", "Player.__getattr__", "player %d: score/awards/bonus %s/%s/%s, shadow %s" % (p, g.player.score, g.player["awards"], g.player["bonus"], sh))
            restored_checked += 1 if ball == 2 else 0
            others_before = {q: dict(g.player_list[q - 1].vars) for q in range(1, n + 1) if q != p}
            # ---- this player's turn: symbolic activity ----
            hits = part["first_hits"] if (ball == 1 and p == 1 and "first_hits" in part) else S.int("hits_b%dp%d" % (ball, p), 0, part["max_hits"])
            for h in range(part["max_hits"]):
                if h < hits:
                    m.events.post("pc_hit")
                    sh["pc"] -= 1
            step = S.choice("step_b%dp%d" % (ball, p), 4)
            if step < 3:
                m.events.post("pa_s%d" % step)
                sh["pa"][step] = True
            add = S.int("score_b%dp%d" % (ball, p), -50, 50)
            g.player.score += add
            sh["score"] += add
            if S.bool("award_b%dp%d" % (ball, p)):
                m.events.post("pm_award")
                sh["score"] += 100
                sh["awards"] += 1
            if S.bool("disable_shot_b%dp%d" % (ball, p)):
                m.events.post("ps_disable")
                sh["shot"] = False
            t2 = S.choice("timer2_b%dp%d" % (ball, p), 3)          # 0 nothing, 1 start, 2 start then timed pause (resumes after 2 s)
            if t2 >= 1:
                m.events.post("pt2_start")
            if t2 == 2:
                m.events.post("pt2_pause")
            dur = S.real("turn_s_b%dp%d" % (ball, p), 0, part["max_turn"])
            t.advance_time_and_run(dur)
            if t2 == 0:
                tm2 = m.timers["ptimer2"]
                if tm2.running or tm2.ticks != 0:
                    raise Violation("timer-state-belongs-to-one-player", "Timer.stop", "player %d ball %d did not touch the timer, but it is running=%s ticks=%s (a previous player's pause/resume leaked)" % (p, ball, tm2.running, tm2.ticks))
            # ---- isolation: nothing of the other players changed during this turn ----
            for q, before in others_before.items():
                now_vars = dict(g.player_list[q - 1].vars)
                for k in set(before) | set(now_vars):
                    if k.endswith("_state"):
                        continue
                    if before.get(k) != now_vars.get(k):
                        raise Violation("other-players-untouched-during-a-turn", "Player.__setattr__", "during player %d's turn player %d's variable %s changed %r -> %r" % (p, q, k, before.get(k), now_vars.get(k)))
                for k in ("pc_state", "pa_state"):
                    if k in now_vars:
                        val = now_vars[k].value
                        want = shadow[q]["pc"] if k == "pc_state" else shadow[q]["pa"]
                        if (list(val) if isinstance(val, list) else val) != want:
                            raise Violation("other-players-untouched-during-a-turn", "LogicBlock", "during player %d's turn player %d's %s changed to %s (had %s)" % (p, q, k, val, want))
            # drain
            m.events.post_relay("ball_drain", balls=1)
            t.advance_time_and_run(1.1)
            turns += 1
    t.advance_time_and_run(2)
    if m.game is not None:
        raise Violation("game-ends", "Game._run", "game still running after %d turns" % turns)
    # ---- score event stream: every change posted once with value/prev/change/player_num ----
    run = {}
    for _, kw in events:
        pnum = kw["player_num"]
        prev = run.get(pnum, 0)
        if kw["prev_value"] != prev or kw["change"] != kw["value"] - kw["prev_value"]:
            raise Violation("player-variable-event-carries-correct-values", "Player._send_variable_event",
                            "player_score event %s but the player's previous value was %s" % ({k: kw[k] for k in ("value", "prev_value", "change", "player_num")}, prev))
        run[pnum] = kw["value"]
    for p in range(1, n + 1):
        if run.get(p, 0) != shadow[p]["score"]:
            raise Violation("player-variable-event-carries-correct-values", "Player._send_variable_event", "player %d: last player_score event value %s, score %s" % (p, run.get(p, 0), shadow[p]["score"]))
    # ---- a new game starts from the configured initial values ----
    m.switch_controller.process_switch("s_start", 1, logical=True)
    m.switch_controller.process_switch("s_start", 0, logical=True)
    t.advance_time_and_run(1)
    if m.game is None:
        raise Violation("new-game-starts", "Game", "no new game")
    if m.counters["pc"].value != 10 or list(m.accruals["pa"].value) != [False, False, False] or m.game.player.score != 0 or m.game.player["bonus"] != 7:
        raise Violation("new-game-starts-from-initial-values", "LogicBlock.device_loaded_in_mode", "new game: counter %s accrual %s score %s bonus %s" % (
            m.counters["pc"].value, list(m.accruals["pa"].value), m.game.player.score, m.game.player["bonus"]))
    _initials(m.game.player, "new game")
    S.note("nontrivial", turns >= 2 and restored_checked >= 1)
    S.note("turns", turns)


def body_var(S, t, part):
    """unit: one player variable set twice; event arguments"""
    from mpf.core.player import Player
    m = t.machine
    p = Player(m, 0)
    p.enable_events(True, False)
    seen = []
    m.events.add_handler("player_x", lambda **kwargs: seen.append(kwargs))
    kind = part["kind"]
    if kind == "int":
        a, b = S.int("a", -100, 100), S.int("b", -100, 100)
    elif kind == "real":
        a, b = S.real("a", -100, 100), S.real("b", -100, 100)
    else:
        a, b = ["", "x", "yy"][S.choice("a", 3)], ["", "x", "zz"][S.choice("b", 3)]
    if S.bool("read_before_first_set"):
        # reading a variable that does not exist yields 0 and is not a change: nothing is created, nothing is posted
        if p.x != 0 or p["x"] != 0:
            raise Violation("player-variable-holds-last-value", "Player.__getattr__", "unset variable reads as %r" % (p.x,))
        t.advance_time_and_run(0.01)
    p["x"] = a
    t.advance_time_and_run(0.01)
    p["x"] = b
    t.advance_time_and_run(0.01)
    # the first assignment creates the variable (documented: the event is posted when a variable is created or changes)
    exp = [dict(value=a, prev_value=0, change=(a - 0) if kind != "str" else True)]
    if b != a:
        exp.append(dict(value=b, prev_value=a, change=(b - a) if kind != "str" else True))
    if len(seen) != len(exp):
        raise Violation("one-event-per-player-variable-change", "Player.__setattr__", "%d events for values %r,%r (expected %d)" % (len(seen), a, b, len(exp)))
    for s_, e in zip(seen, exp):
        if s_["value"] != e["value"] or s_["prev_value"] != e["prev_value"] or s_["player_num"] != 1 or (kind != "str" and s_["change"] != e["change"]):
            raise Violation("player-variable-event-carries-correct-values", "Player._send_variable_event", "event %s expected %s" % ({k: s_[k] for k in ("value", "prev_value", "change", "player_num")}, e))
    if p["x"] != b:
        raise Violation("player-variable-holds-last-value", "Player.__setitem__", "x=%r after setting %r" % (p["x"], b))
    S.note("nontrivial", True)
    S.note("events", len(seen))


def scenarios(tier):
    mh, mt = (3, 3) if tier == "quick" else (4, 4)
    gparts = [dict(players=n, max_hits=mh, max_turn=mt, first_hits=h) for n in (1, 2, 3) for h in range(mh + 1)]
    vparts = [dict(kind=k) for k in ("int", "real", "str")]
    pb = 60 if tier == "quick" else 500
    return [Scenario("game", setup, body_game, gparts, teardown=teardown, part_budget=pb, per_path_timeout=90),
            Scenario("variable", setup, body_var, vparts, teardown=teardown, part_budget=30, per_path_timeout=30)]
