"""C05 Ball requests make progress: no lost or stuck ejects. DESIGN.md section 2/C05."""
from engine.runner import Scenario
from engine.symdrv import Violation
from engine import stubs
from harness.world import World, Dev

ANCHORS = ["mpf/devices/ball_device/ball_device.py", "mpf/devices/ball_device/outgoing_balls_handler.py", "mpf/devices/ball_device/incoming_balls_handler.py",
           "mpf/devices/ball_device/ball_count_handler.py", "mpf/devices/ball_device/pulse_coil_ejector.py", "mpf/devices/playfield.py"]
FUNCTIONS = ["OutgoingBallsHandler._run/_ejecting/_eject_ball/_handle_eject_success/_failed_eject", "BallDevice._setup_or_queue_eject_to_target/request_ball/_balls_missing",
             "IncomingBallsHandler", "BallCountHandler.wait_for_ready_to_receive/end_eject", "PulseCoilEjector.eject_one_ball", "Playfield.add_ball"]
EXPLANATION = ("Bounded symbolic execution (CrossHair/z3) of the real ball-device coroutines against the physical-world simulator with eject FAILURES: the first k pulses "
               "of a device (k symbolic) either make the ball fall back after a symbolic time or do not move it at all; topologies: trough->plunger(max_eject_attempts 3)->playfield, "
               "trough->two-ball holder->playfield with two balls requested, and an auto/manual plunger (mechanical_eject with a coil). Bounded liveness: every requested ball is "
               "delivered within 150 s of virtual time when the failures stop before the attempts are exhausted; every failed eject is followed by a retry pulse or an "
               "eject-failed/broken event; after max_eject_attempts failures the device reports broken with no more pulses; at rest every device is idle.")
NONTRIVIAL_RULE = "at least one eject failed and the recovery (retry, delivery or broken report) was checked"
BOUNDS = {"quick": {"failures": "[0,4]", "fall_back_s": "[0.05,2.5] real", "transit_s": "[0.05,2.5] real", "balls_requested": "1-2", "horizon_s": 150},
          "thorough": {"failures": "[0,4]", "fall_back_s": "[0.05,2.9] real", "horizon_s": 300}}
ASSUMPTIONS = ["liveness is bounded by the horizon; 'eventually' = within 150 s after the last external change",
               "a fall-back counts as a failed eject only if it happens strictly before the eject timeout (3 s); equality assumed away, a later return is 'delivered, then re-entered'",
               "three fixed topologies; ball save, multiball and lock devices are not in the quick tier"]
BUDGET = {"quick": 110, "thorough": 900}


def setup(part):
    return stubs.boot(part["machine"])


def teardown(t):
    stubs.shutdown(t)


def body(S, t, part):
    m = t.machine
    S.now_symbolic(t.loop)
    mach = part["machine"]
    mode = part["mode"]
    fails = S.int("failures", 0, 4) if "failures" not in part else part["failures"]
    dur = {"back": S.real("fall_back", 0.05, 2.5), "transit_bd_trough": 0.5}
    second = {"balls_a": "bd_plunger", "balls_c": "bd_hold", "balls_d": "bd_plunger"}[mach]
    dur["transit_" + second] = S.real("transit", 0.05, 2.5)
    if mach == "balls_c":
        devs = [Dev("bd_trough", ["s_trough1", "s_trough2"], "c_trough", "bd_hold"), Dev("bd_hold", ["s_hold1", "s_hold2"], "c_hold", "playfield")]
    else:
        devs = [Dev("bd_trough", ["s_trough1", "s_trough2"], "c_trough", "bd_plunger"), Dev("bd_plunger", ["s_plunger"], "c_plunger", "playfield")]
    w = World(t, devs, {"bd_trough": 2}, dur, {second: (mode, fails)})
    ev = []
    for name in ("ball_eject_failed", "broken", "ball_eject_success", "ball_eject_attempt"):
        m.events.add_handler("balldevice_%s_%s" % (second, name), (lambda _n=name, **kwargs: ev.append((_n, t.loop.time()))))
    t.advance_time_and_run(1)
    want = part["balls"]
    if part.get("via_game"):
        t.hit_and_release_switch("s_start")
    else:
        m.playfield.add_ball(want, player_controlled=False)
    t.advance_time_and_run(150)
    if w.violations:
        raise Violation(*w.violations[0])
    dev = m.ball_devices[second]
    sd = w.devs[second]
    max_attempts = dev.config['max_eject_attempts']
    n_failed = sum(1 for e in ev if e[0] == "ball_eject_failed")
    broken = any(e[0] == "broken" for e in ev)
    exhausted = bool(max_attempts) and fails >= max_attempts
    if not exhausted:
        if w.pf != want:
            raise Violation("requested-ball-is-eventually-delivered", "OutgoingBallsHandler._ejecting",
                            "%d ball(s) requested, %d on the playfield 150 s later after %d failing eject(s) (%s); %s state %s, pulses %d, events %s" % (
                                want, w.pf, fails, mode, second, dev.state, sd.pulses, [e[0] for e in ev]))
        if fails and n_failed < min(fails, sd.pulses - 1):
            raise Violation("failed-eject-is-retried-or-reported", "OutgoingBallsHandler._failed_eject", "%d failing ejects, %d ball_eject_failed events" % (fails, n_failed))
        w.check_idle("150 s after the request")
        w.check_counts("150 s after the request")
    else:
        if not broken:
            raise Violation("exhausted-device-reports-broken", "OutgoingBallsHandler._ejecting", "%d failures with max_eject_attempts %s but no broken event; state %s, pulses %d, events %s" % (
                fails, max_attempts, dev.state, sd.pulses, [e[0] for e in ev]))
        if sd.pulses > max_attempts:
            raise Violation("no-more-attempts-than-configured", "OutgoingBallsHandler._ejecting", "%d pulses with max_eject_attempts %s" % (sd.pulses, max_attempts))
    S.note("nontrivial", fails > 0)
    S.note("failures", fails)


def body_ball_save(S, t, part):
    """ball save with an eject delay and two balls in play: every saved ball is delivered again"""
    m = t.machine
    S.now_symbolic(t.loop)
    dur = {"transit_bd_trough": 0.5, "transit_bd_plunger": 0.5}
    devs = [Dev("bd_trough", ["s_trough1", "s_trough2"], "c_trough", "bd_plunger"), Dev("bd_plunger", ["s_plunger"], "c_plunger", "playfield")]
    w = World(t, devs, {"bd_trough": 2}, dur)
    t.advance_time_and_run(1)
    t.hit_and_release_switch("s_start")
    t.advance_time_and_run(10)
    if m.game is None or w.pf != 1:
        raise Violation("harness", "start", "game/ball not started (pf %s)" % w.pf)
    m.playfield.add_ball(1)
    m.game.balls_in_play += 1
    t.advance_time_and_run(10)
    if w.pf != 2:
        raise Violation("requested-ball-is-eventually-delivered", "Playfield.add_ball", "second ball not delivered (pf %s)" % w.pf)
    saved = []
    m.events.add_handler("ball_save_bs_saving_ball", lambda balls=0, **kwargs: saved.append(balls))
    gap = S.real("drain_gap", 0, 4)
    w.drain()
    t.advance_time_and_run(gap)
    w.drain()
    t.advance_time_and_run(60)
    if w.violations:
        raise Violation(*w.violations[0])
    n_saved = sum(saved)
    if m.game is None:
        raise Violation("saved-ball-is-delivered", "BallSave", "game ended although the ball save was active")
    # (a ball that drains while the trough is still confirming its previous eject may be taken for that ball coming back and be
    #  served again without a ball-save event: what counts is that every saved ball is back and the game's count matches the playfield)
    if w.pf < n_saved or m.game.balls_in_play != w.pf:
        raise Violation("saved-ball-is-delivered", "BallSave._schedule_balls", "ball save saved %d ball(s) (drain gap %s s) but %d are back on the playfield, balls_in_play %s" % (
            n_saved, gap, w.pf, m.game.balls_in_play))
    w.check_idle("60 s after the drains")
    w.check_counts("60 s after the drains")
    S.note("nontrivial", n_saved > 0)
    S.note("saved", n_saved)


def body_queued(S, t, part):
    """several devices hold queued requests at once (two empty saucer holes asked to release, the plunger asked for a ball);
    when a ball becomes available in the trough, the request that CAN be served is served"""
    m = t.machine
    S.now_symbolic(t.loop)
    dur = {"transit_bd_trough": S.real("transit_trough", 0.05, 2.5), "transit_bd_plunger": S.real("transit_plunger", 0.05, 2.5)}
    devs = [Dev("bd_hole_a", ["s_hole_a"], "c_hole_a", "playfield"), Dev("bd_trough", ["s_trough1", "s_trough2"], "c_trough", "bd_plunger"),
            Dev("bd_plunger", ["s_plunger"], "c_plunger", "playfield"), Dev("bd_hole_z", ["s_hole_z"], "c_hole_z", "playfield")]
    w = World(t, devs, {}, dur)
    w.pf = 1                        # one ball is loose on the playfield, nothing is home
    t.advance_time_and_run(1)
    holes = bool(S.bool("holes_asked_to_release_while_empty"))
    if holes:
        m.events.post("release_hole")
    t.advance_time_and_run(S.real("gap1", 0, 3))
    m.playfield.add_ball(1, player_controlled=False)
    t.advance_time_and_run(S.real("gap2", 0, 3))
    if m.ball_devices["bd_plunger"].requested_balls != 1:
        raise Violation("harness", "add_ball", "the plunger holds %s requests" % m.ball_devices["bd_plunger"].requested_balls)
    w.drain()                       # the loose ball drains: now there is a ball on a path to the plunger
    t.advance_time_and_run(60)
    if w.violations:
        raise Violation(*w.violations[0])
    if w.pf != 1 or m.ball_devices["bd_plunger"].requested_balls != 0:
        raise Violation("requested-ball-is-eventually-delivered", "BallDevice._source_device_balls_available",
                        "a ball became available in the trough but the plunger's request was not served 60 s later: loose balls %s, trough %s, plunger %s (requests %s), holes asked to release: %s" % (
                            w.pf, m.ball_devices["bd_trough"].balls, m.ball_devices["bd_plunger"].balls, m.ball_devices["bd_plunger"].requested_balls, holes))
    for name in ("bd_trough", "bd_plunger"):
        if m.ball_devices[name].state != "idle":
            raise Violation("every-device-returns-to-idle", "BallDevice", "%s is in state %s 60 s after the world stopped changing" % (name, m.ball_devices[name].state))
    S.note("nontrivial", True)
    S.note("holes", holes)


def scenarios(tier):
    parts = []
    for f in range(0, 5):
        parts.append(dict(machine="balls_a", mode="back", balls=1, failures=f))
    for f in range(0, 3):
        parts.append(dict(machine="balls_c", mode="back", balls=2, failures=f))
        parts.append(dict(machine="balls_d", mode="stuck", balls=1, failures=f))
    parts.append(dict(machine="balls_a", mode="stuck", balls=1, failures=1))
    parts.append(dict(machine="balls_a", mode="back", balls=1, failures=1, via_game=True))
    pb = 60 if tier == "quick" else 800
    return [Scenario("failures", setup, body, parts, teardown=teardown, part_budget=pb, per_path_timeout=30 if tier == "quick" else 120),
            Scenario("queued_requests", setup, body_queued, [dict(machine="balls_f")], teardown=teardown, part_budget=pb, per_path_timeout=60),
            Scenario("ball_save", setup, body_ball_save, [dict(machine="balls_e")], teardown=teardown, part_budget=pb, per_path_timeout=60)]
