"""C15 Persistent data is durable, never torn, and survives write failures. DESIGN.md section 2/C15."""
import json
import logging
import os

from engine.runner import Scenario
from engine.symdrv import Violation
from engine import stubs, symloop

ANCHORS = ["mpf/core/data_manager.py", "mpf/core/file_manager.py", "mpf/file_interfaces/yaml_interface.py", "mpf/core/machine_vars.py"]
FUNCTIONS = ["DataManager.save_all/_trigger_save/_writing_thread", "FileManager.save (temp file + os.replace + is_busy)", "YamlInterface.save (real ruamel dump onto a failing stream)", "MachineVariables.configure_machine_var/set_machine_var/"
             "_write_machine_vars_to_disk/load_machine_vars"]
EXPLANATION = ("Bounded symbolic execution (CrossHair/z3) of the real writer thread run sequentially: every access to state shared with the main thread "
               "(time.sleep, the dirty event, the stop flag, FileManager.is_busy, the deepcopy of the data, the file write) first runs an environment step in which the "
               "solver decides whether the main thread called save_all(next version) and/or set the stop flag (Lipton reduction). The real FileManager.save runs against an "
               "in-memory file system whose primitives (truncate, two partial writes, close, rename) can crash the process at a symbolic index or raise OSError for a symbolic "
               "save. Oracles: after a clean shutdown the file holds the last version handed to save_all; at every crash point the target file is a complete version; after a "
               "failed write later saves are still written. Machine variables: symbolic save time, expiry and reload time.")
NONTRIVIAL_RULE = "at least one version was handed to save_all and the disk content was compared"
BOUNDS = {"quick": {"environment_choices": 7, "saves": "<=3", "crash_index": "[0,14]", "failing_save": "none or the k-th"},
          "thorough": {"environment_choices": 9, "saves": "<=4", "crash_index": "[0,20]"}}
ASSUMPTIONS = ["thread model: interleavings only matter at shared accesses; real thread scheduling is not run",
               "process-crash model: completed primitives are kept (no power-loss reordering; the code has no fsync)",
               "yaml_save scenario: the real YamlInterface.save/ruamel dump with concrete data; the stream fails with OSError after a symbolic number of characters",
               "writer_thread scenario: serialisation in the in-memory interface is json.dumps of concrete version dictionaries (ruamel itself is C/regex code: 'all YAML value types' is not decided here)",
               "machine variable times are ints in seconds"]
BUDGET = {"quick": 100, "thorough": 600}


class Stop(BaseException):
    """bounded model: too many environment steps (the thread is blocked for ever)"""


class Crash(BaseException):
    """the process dies after a file-system primitive"""


class MemFS:
    def __init__(self, crash_at, fail_save):
        self.files = {}
        self.prims = 0
        self.crash_at = crash_at
        self.fail_save = fail_save          # index of the save whose write raises OSError (or None)
        self.saves = 0

    def prim(self):
        self.prims += 1
        if self.crash_at is not None and self.prims == self.crash_at:
            raise Crash()

    def save_interface(self, filename, data):
        """stands for YamlInterface.save: open(filename,'w') + dump + close"""
        self.saves += 1
        text = json.dumps(data, sort_keys=True)
        self.files[filename] = ""
        self.prim()                          # truncated
        if self.fail_save is not None and self.saves == self.fail_save:
            self.files[filename] = text[:len(text) // 2]
            raise OSError("No space left on device")
        self.files[filename] = text[:len(text) // 2]
        self.prim()                          # first half written
        self.files[filename] = text
        self.prim()                          # second half written
        self.prim()                          # closed

    def replace(self, src, dst):
        self.files[dst] = self.files.pop(src)
        self.prim()


class _Iface:
    def __init__(self, fs):
        self.fs = fs

    def save(self, filename, data):
        self.fs.save_interface(filename, data)


def setup(part):
    stubs.shims()
    return symloop.new_loop()


def teardown(loop):
    try:
        loop.close()
    except Exception:  # pylint: disable=broad-except
        pass


def body_thread(S, loop, part):
    import mpf.core.data_manager as dmmod
    import mpf.core.file_manager as fmmod
    from mpf.core.data_manager import DataManager
    from mpf.core.file_manager import FileManager
    n_choices = part["choices"]
    choices = [S.choice("env%d" % i, 3) for i in range(n_choices)]          # 0 nothing, 1 save_all(next version), 2 stop flag
    crash_at = S.int("crash_after_primitive", 1, part["max_crash"]) if part["crash"] else None
    fail_save = S.int("failing_save", 1, 3) if part["fail"] else None
    fs = MemFS(crash_at, fail_save)
    target = "/data/x.yaml"

    class Env:
        i = 0
        version = 0
        stopped = False
        steps = 0
        handed = []

        def step(self):
            self.steps += 1
            if self.steps > 60:
                raise Stop()
            if self.i < len(choices):
                c = choices[self.i]
                self.i += 1
                if c == 1 and not self.stopped and self.version < 3:
                    self.version += 1
                    data = {"v": self.version, "payload": "x" * 10}
                    self.handed.append(data)
                    dm.save_all(data)
                elif c == 2:
                    self.stopped = True
            else:
                self.stopped = True          # bounded: after the scripted choices the machine shuts down
    env = Env()
    env.handed = []

    class FakeEvent:
        def __init__(self):
            self.flag = False

        def set(self):
            self.flag = True

        def clear(self):
            env.step()
            self.flag = False

        def is_set(self):
            env.step()
            return self.flag

        def wait(self, timeout=None):
            env.step()
            return self.flag

    class FakeStopper:
        def is_set(self):
            env.step()
            return env.stopped

    class FakeTime:
        @staticmethod
        def sleep(s):
            env.step()

    class ShimOS:
        path = os.path
        sep = os.sep

        @staticmethod
        def replace(a, b):
            fs.replace(a, b)

    class M:
        pass
    dm = DataManager.__new__(DataManager)
    dm.machine = M()
    dm.machine.thread_stopper = FakeStopper()
    dm.name, dm.min_wait_secs, dm.filename, dm.data, dm._dirty = "x", 1, target, {}, FakeEvent()
    dm.log = logging.getLogger("dm")
    dm._debug_to_console = dm._debug_to_file = dm._info_to_console = dm._info_to_file = False
    saved = (dmmod.time, fmmod.os, FileManager.file_interfaces, FileManager.initialized, FileManager.is_busy)
    dmmod.time = FakeTime
    fmmod.os = ShimOS
    FileManager.file_interfaces = {".yaml": _Iface(fs)}
    FileManager.initialized = True
    FileManager.is_busy = False
    crashed = blocked = False
    try:
        try:
            dm._writing_thread()
        except Crash:
            crashed = True
        except Stop:
            blocked = True
        except OSError:
            pass                # the injected write failure hit the final flush at shutdown: the thread ends with the error
    finally:
        dmmod.time, fmmod.os, FileManager.file_interfaces, FileManager.initialized, FileManager.is_busy = saved
    disk = fs.files.get(target)
    versions = [json.dumps(d, sort_keys=True) for d in env.handed]
    if disk is not None and disk not in versions:
        raise Violation("file-is-never-torn", "FileManager.save", "target file holds %r which is no complete version (%d handed, crashed=%s, failing save=%s)" % (disk, len(versions), crashed, fail_save))
    if blocked:
        raise Violation("one-failed-write-does-not-stop-later-saves" if fail_save else "writer-thread-terminates", "FileManager.save" if fail_save else "DataManager._writing_thread",
                        "the writer thread is blocked for ever (environment %s, failing save %s, is_busy stuck)" % (choices, fail_save))
    if not crashed and env.handed:
        last = versions[-1]
        failed_last = fail_save is not None and fs.saves >= fail_save and disk != last
        if disk != last:
            # the only legitimate excuse: the LAST write attempt is the one that was made to fail and nothing was handed in afterwards
            if not (fail_save is not None and _last_attempt_failed(fs, fail_save)):
                raise Violation("on-disk-after-clean-shutdown-exactly-as-last-saved", "DataManager._writing_thread",
                                "clean shutdown, last version handed to save_all %s, disk %s (environment %s, saves attempted %d, failing save %s)" % (last, disk, choices, fs.saves, fail_save))
    S.note("nontrivial", bool(env.handed))
    S.note("saves", fs.saves)


def _last_attempt_failed(fs, fail_save):
    return fs.saves == fail_save


def body_yaml(S, loop, part):
    """the real FileManager.save + YamlInterface.save (ruamel) on an in-memory file system whose stream fails after a symbolic number of
    characters during a symbolic save: no torn file, and the saves after the failed one are written"""
    import mpf.core.file_manager as fmmod
    import mpf.file_interfaces.yaml_interface as yi
    from mpf.core.file_manager import FileManager
    from ruamel import yaml as ryaml
    files = {}
    n_saves = part["saves"]
    fail_k = S.int("failing_save", 1, n_saves)
    fail_after = S.int("fail_after_chars", 0, part["max_chars"])
    state = {"save": 0}
    target = "/data/x.yaml"

    class F:
        encoding = "utf8"           # a text-mode file, like open(filename, 'w', encoding='utf8')

        def __init__(self, name):
            self.name, self.n = name, 0
            self.failing = state["save"] == fail_k          # the device is full while this file is open
            self.closed = False
            files[name] = ""

        def write(self, text):
            if self.closed:
                raise ValueError("I/O operation on closed file.")
            if self.failing and self.n + len(text) > fail_after:
                files[self.name] += text[:max(0, fail_after - self.n)]
                self.n = fail_after
                raise OSError(28, "No space left on device")
            self.n += len(text)
            files[self.name] += text
            return len(text)

        def flush(self):
            pass

        def close(self):
            self.closed = True

        def __enter__(self):
            return self

        def __exit__(self, *a):
            self.closed = True
            return False

    def fake_open(name, mode="r", **kwargs):
        if "w" not in mode:
            raise OSError("read not modelled")
        return F(name)

    class ShimOS:
        path = os.path
        sep = os.sep

        @staticmethod
        def replace(a, b):
            files[b] = files.pop(a)
    saved = (fmmod.os, FileManager.file_interfaces, FileManager.initialized, FileManager.is_busy)
    fmmod.os = ShimOS
    yi.open = fake_open
    if hasattr(yi, "_yaml"):
        # every path is a fresh process: module-level dumper state must not leak from the previous path
        yi._yaml = ryaml.YAML(typ='safe')
        yi._yaml.default_flow_style = False
    FileManager.file_interfaces = {".yaml": yi.YamlInterface()}
    FileManager.initialized = True
    FileManager.is_busy = False
    good = None
    written = 0
    try:
        for k in range(1, n_saves + 1):
            state["save"] = k
            data = {"v": k, "payload": "x" * 10, "nested": {"list": [1, 2.5, None, True], "s": "a: b"}}
            try:
                FileManager.save(target, data)
                good = data
                written += 1
            except (OSError, ValueError) as e:
                if k != fail_k:
                    raise Violation("one-failed-write-does-not-stop-later-saves", "YamlInterface.save", "save %d raised %r although only save %d was made to fail (after %s characters)" % (k, e, fail_k, fail_after))
            if FileManager.is_busy:
                raise Violation("one-failed-write-does-not-stop-later-saves", "FileManager.save", "is_busy left set after save %d" % k)
            disk = files.get(target)
            if good is None:
                if disk is not None:
                    raise Violation("file-is-never-torn", "FileManager.save", "target exists (%r) although no save has succeeded" % disk)
            else:
                try:
                    back = ryaml.YAML(typ='safe').load(disk)
                except Exception as e:  # pylint: disable=broad-except
                    back = "unparsable: %r" % e
                if back != good:
                    raise Violation("file-is-never-torn" if k == fail_k else "on-disk-exactly-as-last-saved", "FileManager.save",
                                    "after save %d (failing save %d after %s chars) the target holds %r, last complete version %r" % (k, fail_k, fail_after, back, good))
    finally:
        fmmod.os, FileManager.file_interfaces, FileManager.initialized, FileManager.is_busy = saved
        del yi.open
    S.note("nontrivial", written >= 1)
    S.note("failing_save", fail_k)


def body_vars(S, loop, part):
    """persistent machine variables reload with equal values unless their expiry time has passed"""
    from mpf.core.machine_vars import MachineVariables
    from collections import defaultdict
    t_save = S.int("save_time", 0, 100000)
    expire = S.int("expire_secs", 1, 7200) if S.bool("has_expiry") else None
    t_load = S.int("reload_time", 0, 200000)
    S.assume(t_load >= t_save)
    value = S.int("value", -50, 50)
    store = {}

    class DM:
        def save_all(self, data):
            store.clear()
            store.update(json.loads(json.dumps(data)))          # what a file round trip keeps

        def get_data(self, section=None):
            return dict(store)

    class DT:
        def __init__(self, ts):
            self.ts = ts

        def timestamp(self):
            return self.ts

    class Clock:
        now = 0

        def get_datetime(self):
            return DT(self.now)

    class Ev:
        def post(self, *a, **k):
            pass

    class M:
        config = {"logging": {"console": defaultdict(lambda: "none"), "file": defaultdict(lambda: "none")}, "mpf": {"save_machine_vars_to_disk": True}}
        clock = Clock()
        events = Ev()
        monitors = {}
        options = {"production": True}
    m = M()
    mv = MachineVariables(m)
    mv.machine_var_data_manager = DM()
    m.clock.now = t_save
    mv.configure_machine_var("credits", persist=True, expire_secs=expire)
    mv.set_machine_var("credits", value)
    mv.set_machine_var("plain", 5, persist=True)
    # a later set (same or new value) restarts the life time: expiry counts from the LAST set
    t_last = t_save
    if S.bool("set_again_later"):
        dt = S.int("second_set_after", 1, 5000)
        value2 = value if S.bool("same_value_again") else S.int("value2", -50, 50)
        m.clock.now = t_save + dt
        mv.set_machine_var("credits", value2)
        value = value2
        t_last = t_save + dt
        S.assume(t_load >= t_last)
    # next boot
    m2 = M()
    mv2 = MachineVariables(m2)
    m2.clock.now = t_load
    dm2 = DM()
    mv2.machine_var_data_manager = dm2
    for name, settings in dm2.get_data().items():
        if not isinstance(settings, dict) or "value" not in settings:
            continue
    # the real loader (without the system-information variables that follow it)
    try:
        mv2.load_machine_vars(dm2, t_load)
    except Exception:  # pylint: disable=broad-except
        pass            # platform()/version variables after the loop need a full machine; the loop itself has run
    got = mv2.get_machine_var("credits")
    expired = expire is not None and t_load > t_last + expire
    t_save = t_last
    if expired and got is not None:
        raise Violation("expired-variable-is-not-reloaded", "MachineVariables.load_machine_vars", "saved at %s with expiry %s s, reloaded at %s: value %r came back" % (t_save, expire, t_load, got))
    if not expired and (got != value or type(got) is not type(value)):
        raise Violation("persistent-variable-reloads-with-equal-value", "MachineVariables.load_machine_vars", "saved %r at %s (expiry %s), reload at %s gave %r" % (value, t_save, expire, t_load, got))
    if mv2.get_machine_var("plain") != 5:
        raise Violation("persistent-variable-reloads-with-equal-value", "MachineVariables.load_machine_vars", "variable without expiry came back as %r" % mv2.get_machine_var("plain"))
    S.note("nontrivial", True)
    S.note("expired", bool(expired))


def scenarios(tier):
    n = 7 if tier == "quick" else 9
    mc = 14 if tier == "quick" else 20
    tparts = [dict(choices=n, crash=False, fail=False, max_crash=mc), dict(choices=n, crash=True, fail=False, max_crash=mc),
              dict(choices=n, crash=False, fail=True, max_crash=mc), dict(choices=n - 1, crash=True, fail=True, max_crash=mc)]
    pb = 80 if tier == "quick" else 400
    return [Scenario("writer_thread", setup, body_thread, tparts, teardown=teardown, part_budget=pb, per_path_timeout=30),
            Scenario("yaml_save", setup, body_yaml, [dict(saves=3, max_chars=30 if tier == "quick" else 120)], teardown=teardown, part_budget=pb, per_path_timeout=30),
            Scenario("machine_vars", setup, body_vars, [dict()], teardown=teardown, part_budget=pb, per_path_timeout=30)]
