"""Physical-world simulator for ball-device harnesses (C04, C05). DESIGN.md section 2/C04.

Physics (assumptions of the claim): a switch-counted device with n balls has its first n ball switches active; an eject
pulse makes the top ball leave after t_leave; it then reaches the target after t_transit (hitting a confirm switch on the
way if the path has one), or falls back into the source after t_back when the eject fails; balls on the playfield may hit the
playfield switch, drain into the trough or be put there by hand; balls never vanish or appear.
"""
from engine.symdrv import Violation


class Dev:
    def __init__(self, name, switches, coil, target, capacity=None, confirm_switch=None):
        self.name, self.switches, self.coil, self.target = name, switches, coil, target
        self.capacity = capacity if capacity is not None else len(switches)
        self.confirm_switch = confirm_switch
        self.n = 0
        self.pulses = 0


class World:
    def __init__(self, t, devs, start_counts, dur, fail=None):
        self.t, self.m = t, t.machine
        self.devs = {d.name: d for d in devs}
        self.dur = dur                  # dict of durations (symbolic reals)
        self.fail = fail or {}          # device name -> number of first pulses that fail (ball falls back)
        self.pf = 0
        self.flying = {}                # target name -> balls in flight towards it
        self.log = []
        self.violations = []
        for d in devs:
            d.n = start_counts.get(d.name, 0)
            drv = self.m.coils[d.coil].hw_driver
            drv.pulse = (lambda settings, _d=d: self.pulse(_d))
            drv.enable = (lambda ps, hs, _d=d: self.pulse(_d))
            drv.disable = (lambda: None)

    # ---- helpers ----
    def sw(self, name, state):
        self.m.switch_controller.process_switch(name, state, logical=True)

    def later(self, d, fn):
        self.m.clock.loop.call_later(d, fn)

    def in_flight(self, name):
        return self.flying.get(name, 0)

    # ---- physics ----
    def pulse(self, d):
        d.pulses += 1
        self.log.append((self.t.loop.time(), "pulse", d.name))
        if d.n == 0:
            return
        tgt = d.target
        if tgt != "playfield":
            td = self.devs[tgt]
            if td.n + self.in_flight(tgt) >= td.capacity:
                self.violations.append(("never-fires-towards-a-device-without-room", "BallCountHandler.wait_for_ready_to_receive",
                                        "%s fired a ball at %s (capacity %d) which holds %d and has %d in transit" % (d.name, tgt, td.capacity, td.n, self.in_flight(tgt))))
        mode, k = self.fail.get(d.name, ("back", 0)) if isinstance(self.fail.get(d.name, 0), tuple) else ("back", self.fail.get(d.name, 0))
        failing = d.pulses <= k
        if failing and mode == "stuck":
            return                      # the coil fires but the ball does not leave
        t_leave = self.dur.get("leave", 0.1)

        def leave():
            if d.n == 0:
                return
            d.n -= 1
            self.sw(d.switches[d.n], 0)
            if failing:
                self.flying[d.name] = self.in_flight(d.name) + 1
                self.later(self.dur["back"], back)
                return
            self.flying[tgt] = self.in_flight(tgt) + 1
            transit = self.dur.get("transit_" + d.name, 0.5)
            if d.confirm_switch:
                tc = self.dur.get("confirm_" + d.name, 0.2)
                self.later(tc, lambda: (self.sw(d.confirm_switch, 1), self.sw(d.confirm_switch, 0)))
            self.later(transit, arrive)

        def back():
            self.flying[d.name] -= 1
            self.sw(d.switches[d.n], 1)
            d.n += 1

        def arrive():
            self.flying[tgt] -= 1
            if tgt == "playfield":
                self.pf += 1
                self.sw("s_pf", 1)
                self.sw("s_pf", 0)
            else:
                td = self.devs[tgt]
                if td.n >= len(td.switches):
                    self.violations.append(("count-never-above-capacity", "BallDevice", "a ball arrived at %s which is physically full" % tgt))
                    self.pf += 1          # it bounces out
                    return
                self.sw(td.switches[td.n], 1)
                td.n += 1
        self.later(t_leave, leave)

    def drain(self, dev="bd_trough"):
        """a loose ball drains into the trough"""
        d = self.devs[dev]
        if self.pf == 0 or d.n >= len(d.switches):
            return False
        self.pf -= 1
        self.sw(d.switches[d.n], 1)
        d.n += 1
        return True

    def steal(self, dev="bd_trough"):
        """a ball leaves an idle device without an eject (taken out by hand / bounced out) and is then loose on the playfield"""
        d = self.devs[dev]
        if d.n == 0:
            return False
        d.n -= 1
        self.sw(d.switches[d.n], 0)
        self.pf += 1
        return True

    # ---- oracles ----
    def check_counts(self, where):
        m = self.m
        if self.violations:
            raise Violation(*self.violations[0])
        for name, d in self.devs.items():
            bd = m.ball_devices[name]
            if bd.balls != d.n:
                raise Violation("device-count-equals-balls-physically-in-it", "BallCountHandler", "%s: %s.balls=%s, physically %s (playfield %s/%s)" % (where, name, bd.balls, d.n, m.playfield.balls, self.pf))
            if bd.balls < 0 or bd.balls > d.capacity:
                raise Violation("count-never-negative-or-above-capacity", "BallCountHandler", "%s: %s.balls=%s" % (where, name, bd.balls))
        if m.playfield.balls != self.pf:
            raise Violation("playfield-count-equals-loose-balls", "Playfield", "%s: playfield.balls=%s, physically loose %s" % (where, m.playfield.balls, self.pf))
        total = sum(m.ball_devices[n].balls for n in self.devs) + m.playfield.balls
        if total != m.ball_controller.num_balls_known:
            raise Violation("counts-sum-to-balls-known", "BallController", "%s: counts sum to %s, num_balls_known %s" % (where, total, m.ball_controller.num_balls_known))

    def check_idle(self, where):
        for name in self.devs:
            bd = self.m.ball_devices[name]
            if bd.state != "idle":
                raise Violation("every-device-returns-to-idle", "BallDevice", "%s: %s is in state %s although the world stopped changing" % (where, name, bd.state))

    def never_negative(self, where):
        for name in self.devs:
            bd = self.m.ball_devices[name]
            if bd.balls < 0 or bd.available_balls < 0 and False:
                raise Violation("count-never-negative-or-above-capacity", "BallCountHandler", "%s: %s.balls=%s" % (where, name, bd.balls))
        if self.m.playfield.balls < 0:
            raise Violation("count-never-negative-or-above-capacity", "Playfield", "%s: playfield.balls=%s" % (where, self.m.playfield.balls))
