"""C09 Light hardware output equals the priority stack's colour. DESIGN.md section 2/C09."""
import asyncio

from engine.runner import Scenario
from engine.symdrv import Violation
from engine import stubs

ANCHORS = ["mpf/devices/light.py", "mpf/platforms/interfaces/light_platform_interface.py", "mpf/core/platform_batch_light_system.py",
           "mpf/platforms/virtual.py"]
FUNCTIONS = ["Light.color/on/off", "Light._add_to_stack", "Light.remove_from_stack_by_key", "Light._remove_fade_out", "Light.clear_stack",
             "Light._schedule_update", "Light._get_color_and_target_time", "Light._get_color_and_fade", "Light.get_color", "Light.get_color_below",
             "LightPlatformDirectFade.set_fade/_fade", "LightPlatformSoftwareFade.set_brightness_and_fade", "PlatformBatchLight.set_fade/get_fade_and_brightness",
             "PlatformBatchLightSystem._schedule_updates/_send_updates/_send_update_batch/mark_dirty", "VirtualLight.set_fade/current_brightness"]
EXPLANATION = ("Bounded symbolic execution (CrossHair/z3) of the real Light device on a booted machine, with the hardware channel drivers replaced "
               "per partition by real subclasses of the four backend base classes (virtual, software fade, direct fade with max_fade_ms, batch system whose "
               "update callback awaits a symbolic latency). Operations (colour with symbolic priority / fade time / key, removal with fade, clear) are separated by "
               "symbolic real gaps so that commands land before, inside and after running fades. Oracle: a statement-level stack model (surviving entry of highest "
               "priority); after all fades ended the last brightness commanded to each channel must equal the logical colour / 255.")
NONTRIVIAL_RULE = "at least one colour command took effect and the final hardware brightness was compared"
BOUNDS = {"quick": {"ops": 3, "palette": "5 (quick: colour per operation fixed by rotation)", "priority": "[-3,20] int", "fade_ms": "0 or [1,2000] real", "gap_s": "[0,2.5] real", "backends": 4, "batch_latency_s": "[0,0.2] real"},
          "thorough": {"ops": 4, "palette": 5, "priority": "[-3,20] int", "fade_ms": "0 or [1,2000] real", "gap_s": "[0,2.5] real", "backends": 4}}
ASSUMPTIONS = ["colours come from a concrete palette (channel arithmetic stays concrete); a colour-correction profile is three concrete channel tables assigned to the real profile object (generate_from_parameters, i.e. the gamma/whitepoint float arithmetic, is not executed)",
               "two different keys with equal priority: the statement says 'highest-priority entry'; ties are assumed away",
               "a command that re-uses a key with a lower priority than that key's existing entry is ignored by the code and the statement is silent: assumed away",
               "an operation exactly at a fade end is assumed away"]
BUDGET = {"quick": 130, "thorough": 600}

PALETTE = [(255, 0, 0), (0, 0, 255), (100, 100, 100), (255, 255, 255), (40, 120, 200)]
PALETTE_B = [(200, 200, 200), (100, 100, 100), (50, 50, 50), (255, 0, 0), (100, 200, 50)]
KEYS = ["a", "b", "c"]
PROFILE_FNS = (lambda x: x // 2, lambda x: min(255, 2 * x), lambda x: (3 * x) // 4)


def setup(part):
    return stubs.boot("lights")


def teardown(t):
    ls = getattr(t, "_verif_light_system", None)
    if ls is not None:
        ls.stop()
    stubs.shutdown(t)


def _install_backend(S, t, light, backend):
    """replace the light's channel drivers by recording drivers built on the real backend base classes"""
    from mpf.platforms.interfaces.light_platform_interface import LightPlatformSoftwareFade, LightPlatformDirectFade
    from mpf.core.platform_batch_light_system import PlatformBatchLight, PlatformBatchLightSystem
    loop = t.loop
    rec = {}
    if backend == "virtual":
        return None

    class Soft(LightPlatformSoftwareFade):
        def __init__(self, number):
            super().__init__(number, loop, 50)

        def set_brightness(self, brightness):
            rec.setdefault(self.number, []).append((loop.time(), brightness))

        def get_board_name(self):
            return "verif"

    class Direct(LightPlatformDirectFade):
        def get_max_fade_ms(self):
            return 255

        def set_brightness_and_fade(self, brightness, fade_ms):
            rec.setdefault(self.number, []).append((loop.time() + fade_ms / 1000.0, brightness))

        def get_board_name(self):
            return "verif"

    class Batch(PlatformBatchLight):
        def get_max_fade_ms(self):
            return 255

        def get_board_name(self):
            return "verif"

        def is_successor_of(self, other):
            return False

        def get_successor_number(self):
            return self.number + 1

        def __lt__(self, other):
            return self.number < other.number

        def __hash__(self):
            return self.number

        def __eq__(self, other):
            return self is other
    if backend == "batch":
        latency = S.real("batch_latency", 0, 0.2)

        async def send(batch):
            await asyncio.sleep(latency)
            for lt, brightness, fade_ms in batch:
                rec.setdefault(lt.number, []).append((loop.time() + fade_ms / 1000.0, brightness))
        system = PlatformBatchLightSystem(t.machine.clock, send, 50, 16)
        system.start()
        t._verif_light_system = system
    n = 0
    for color in list(light.hw_drivers):
        n += 1
        if backend == "soft":
            drv = Soft(n)
        elif backend == "direct":
            drv = Direct(n, loop)
        else:
            drv = Batch(n, system)
        light.hw_drivers[color] = [drv]
    light._last_fade_target = None
    return rec


def body(S, t, part):
    m = t.machine
    if "dim_to" in part:
        m.variables.set_machine_var("brightness", 1.0)
        t.advance_time_and_run(0.01)
    S.now_symbolic(t.loop)
    light = m.lights[part["light"]]
    if part.get("rgbw_style"):
        light._rbgw_style = part["rgbw_style"]
    rec = _install_backend(S, t, light, part["backend"])
    other = m.lights["l_rgb2"]
    rec_other = _install_backend(S, t, other, part["backend"]) if part["backend"] == "batch" else None
    palette = PALETTE
    factor = part.get("brightness")
    if factor is not None:
        # global brightness setting (exact in binary): every channel is scaled with int(x * factor) before it goes to the hardware.
        # The palette contains colours whose corrected value equals another colour's uncorrected value.
        m.light_controller.brightness_factor = factor
        palette = PALETTE_B
    # colour-correction profile: the real RGBColorCorrectionProfile object carrying three concrete lookup tables; the oracle applies
    # the same three functions itself (after the brightness factor, the order Light._schedule_update documents)
    light._color_correction_profile = None
    if part.get("profile"):
        from mpf.core.rgb_color import RGBColorCorrectionProfile
        prof = RGBColorCorrectionProfile("verif")
        for ch, fn in enumerate(PROFILE_FNS):
            prof.assign_channel_lookup_table_values(ch, [fn(x) for x in range(256)])
        light._set_color_correction_profile(prof)
    model = {}        # key -> (priority, colour)
    lingering = []    # colours of removed/replaced entries that may still contribute to a running fade
    fade_end = [t.loop.time()]          # instant at which the last fade issued so far ends: afterwards nothing lingers
    pin = part.get("pin", {})

    def choice(name, n):
        return pin[name] if name in pin else S.choice(name, n)

    def boolean(name):
        return pin[name] if name in pin else S.bool(name)

    def integer(name, lo, hi):
        return pin[name] if name in pin else S.int(name, lo, hi)

    def fade_ms(name):
        # a concrete duration keeps the interpolation linear in the remaining symbolic instants (much cheaper paths)
        return pin[name] if name in pin else S.real(name, 1, 2000)
    n_eff = 0
    ops = part["ops"]
    for i, op in enumerate(ops):
        now = t.loop.time()
        if op == "color":
            if "cols" in part:
                col = palette[part["cols"][i]]
            else:
                col = palette[(i + part.get("rot", 0)) % len(palette)] if "rot" in part else palette[S.choice("colour%d" % i, len(palette))]
            prio = integer("priority%d" % i, -3, 20)
            key = KEYS[choice("key%d" % i, len(KEYS))]
            fade = fade_ms("fade_ms%d" % i) if boolean("fades%d" % i) else 0
            for k2, (p2, _) in model.items():
                if k2 != key:
                    S.assume(p2 != prio)
            if key in model:
                S.assume(prio >= model[key][0])
            if now > fade_end[0]:
                lingering.clear()
            if key in model and (fade > 0 or now <= fade_end[0]):
                lingering.append(model[key][1])
            if fade > 0:
                fade_end[0] = max(fade_end[0], now + fade / 1000.0)
            light.color(list(col), fade_ms=fade, priority=prio, key=key)
            model[key] = (prio, col)
            n_eff += 1
            if part["backend"] == "batch" and i == 0:
                # a second light is updated in the same batch round: its send overlaps with later commands to the first
                other.color([10, 20, 30], fade_ms=0, priority=1, key="o")
        elif op == "remove":
            key = KEYS[choice("key%d" % i, len(KEYS))]
            fade = fade_ms("fade_ms%d" % i) if boolean("fades%d" % i) else 0
            if now > fade_end[0]:
                lingering.clear()
            if key in model:
                is_top = all(p2 < model[key][0] for k2, (p2, _) in model.items() if k2 != key)
                if fade > 0:
                    lingering.append(model[key][1])
                    fade_end[0] = max(fade_end[0], now + fade / 1000.0)
                elif not is_top and now <= fade_end[0]:
                    lingering.append(model[key][1])      # a fade above it may have started from a blend that contains this colour
            light.remove_from_stack_by_key(key, fade_ms=fade)
            model.pop(key, None)
        elif op == "dim":
            # the operator changes the brightness setting (machine variable -> LightController._update_brightness): it applies to every
            # colour sent to the hardware from now on, also to colours that were sent before with the old factor
            factor = part["dim_to"]
            m.variables.set_machine_var("brightness", factor)
            t.advance_time_and_run(0.01)
            if m.light_controller.brightness_factor != factor:
                raise Violation("harness", "dim", "brightness factor %s after setting %s" % (m.light_controller.brightness_factor, factor))
        elif op == "clear":
            light.clear_stack()
            model.clear()
            lingering.clear()
            fade_end[0] = now
        gap = S.real("gap%d" % i, 0, 2.5)
        t.advance_time_and_run(gap)
        # while fades run the logical colour stays inside the hull of the colours involved
        cur = light.get_color()
        ts = t.loop.time()
        S.assume(ts != fade_end[0])
        if ts > fade_end[0]:
            lingering.clear()
        involved = [c for _, c in model.values()] + [(0, 0, 0)] + lingering
        for ch, name in enumerate(("red", "green", "blue")):
            v = getattr(cur, name)
            lo_c = min(c[ch] for c in involved)
            hi_c = max(c[ch] for c in involved)
            if v < lo_c or v > hi_c:
                raise Violation("fade-stays-between-endpoints", "_get_color_and_fade", "after op %d %s: channel %s = %s lies outside [%s, %s], the range of the colours involved %s (stack %s)" % (
                    i, op, name, v, lo_c, hi_c, involved, [(e.key, e.priority) for e in light.stack]))
    t.advance_time_and_run(4)
    # ---- final state ------------------------------------------------------------------------------
    want = (0, 0, 0)
    best = None
    for key, (p, c) in model.items():
        if best is None or p > best:
            best, want = p, c
    cur = light.get_color()
    got = (cur.red, cur.green, cur.blue)
    if got != tuple(want):
        clause = "removing-all-turns-off" if not model else "logical-colour-is-highest-priority-entry"
        raise Violation(clause, "Light._add_to_stack" if model else "Light.remove_from_stack_by_key",
                        "logical colour %s, expected %s; model %s; stack %s" % (got, want, model, [(e.key, e.priority) for e in light.stack]))
    if factor is not None:
        want = tuple(int(x * factor) for x in want)
    if part.get("profile"):
        want = tuple(fn(x) for fn, x in zip(PROFILE_FNS, want))
    chans = {"red": want[0], "green": want[1], "blue": want[2], "white": min(want)}
    style = part.get("rgbw_style")
    if style == "white_only":           # any shade of white goes to the white channel only
        grey = want[0] == want[1] == want[2]
        chans = {"red": 0 if grey else want[0], "green": 0 if grey else want[1], "blue": 0 if grey else want[2], "white": want[0] if grey else 0}
    elif style == "duck_rgb":           # white is the common part, the colour channels carry the rest
        chans = {"red": want[0] - min(want), "green": want[1] - min(want), "blue": want[2] - min(want), "white": min(want)}
    for color, drivers in light.hw_drivers.items():
        expect = chans[color] / 255.0
        for drv in drivers:
            if rec is None:
                last = drv.current_brightness
            else:
                hist = rec.get(drv.number, [])
                last = hist[-1][1] if hist else 0.0
            if last != expect:
                raise Violation("hardware-equals-logical-colour-after-fades", {"soft": "LightPlatformDirectFade.set_fade", "direct": "LightPlatformDirectFade.set_fade",
                                                                               "batch": "PlatformBatchLightSystem._send_updates", "virtual": "Light._schedule_update"}[part["backend"]],
                                "backend %s channel %s: last commanded brightness %s, logical colour needs %s (history tail %s)" % (
                                    part["backend"], color, last, expect, (rec.get(drv.number, [])[-3:] if rec is not None else None)))
    S.note("nontrivial", n_eff > 0)
    S.note("final", str(want))


def scenarios(tier):
    parts = []
    if tier == "quick":
        seqs = [["color", "color", "remove"], ["color", "color", "color"], ["color", "remove", "color"], ["color", "color", "clear"]]
        for b in ("virtual", "soft", "direct", "batch"):
            for s in seqs:
                parts.append(dict(light="l_rgb", backend=b, ops=s, rot=len(parts)))
        parts.append(dict(light="l_w", backend="soft", ops=["color", "color", "remove"], rot=1))
        # a key removed with a fade-out while a higher entry covers it, then the covering entry goes: the light must stay between the
        # fading colour and the one beneath
        parts.append(dict(light="l_rgb", backend="virtual", ops=["color", "color", "color", "remove", "remove"], rot=0,
                          pin={"key0": 0, "key1": 1, "key2": 2, "key3": 1, "key4": 2, "fades0": False, "fades1": False, "fades2": False, "fades3": True, "fades4": False,
                               "fade_ms3": 1500.0, "priority0": 1, "priority1": 2, "priority2": 3}))
        for b in ("virtual", "soft", "direct", "batch"):
            parts.append(dict(light="l_rgb", backend=b, ops=["color", "color", "remove"], rot=0, brightness=0.5,
                              pin={"key0": 0, "key1": 0, "fades0": False, "fades1": True, "fade_ms1": 400.0}))
            parts.append(dict(light="l_rgb", backend=b, ops=["color", "color", "color"], rot=len(parts), brightness=0.5))
        # a long fade (longer than the hardware's own 255 ms: sent in steps) interrupted by a return to the colour underneath
        for b in ("batch", "direct", "soft"):
            parts.append(dict(light="l_rgb", backend=b, ops=["color", "color", "remove"], rot=len(parts),
                              pin={"key0": 0, "key1": 1, "key2": 1, "fades0": False, "fades1": True, "fades2": False, "fade_ms1": 1500.0}))
        # colour-correction profile (three different channel tables), alone and together with the global brightness factor
        for b in ("virtual", "soft", "direct", "batch"):
            parts.append(dict(light="l_rgb", backend=b, ops=["color", "color", "remove"], rot=len(parts), profile=True))
            parts.append(dict(light="l_rgb", backend=b, ops=["color", "remove", "color"], rot=len(parts), profile=True, brightness=0.5))
        parts.append(dict(light="l_rgbw", backend="virtual", ops=["color", "color"], rot=2, rgbw_style="duck_rgb", profile=True))
        # the brightness setting changes between two uses of the same colour (each command changes the logical colour, so each is sent)
        samekey = {"key0": 0, "key2": 0, "key3": 0}
        for b in ("virtual", "direct", "batch"):
            parts.append(dict(light="l_rgb", backend=b, ops=["color", "dim", "color", "color"], cols=[0, None, 1, 0], dim_to=0.5, pin=samekey))
        parts.append(dict(light="l_rgb", backend="soft", ops=["color", "dim", "color", "color"], cols=[4, None, 2, 4], dim_to=0.25, pin=samekey, profile=True))
        for k, style in enumerate(("white_only", "min_rgb", "duck_rgb")):
            parts.append(dict(light="l_rgbw", backend="virtual", ops=["color", "color"], rot=k + 1, rgbw_style=style))
            parts.append(dict(light="l_rgbw", backend="virtual", ops=["color", "remove"], rot=k + 2, rgbw_style=style))
    else:
        import itertools
        for b in ("virtual", "soft", "direct", "batch"):
            for s in itertools.product(["color", "remove", "clear"], repeat=3):
                parts.append(dict(light="l_rgb", backend=b, ops=["color"] + list(s)))
        for b in ("virtual", "soft", "direct", "batch"):
            for s3 in (["color", "color", "remove"], ["color", "color", "color"], ["color", "remove", "color"]):
                parts.append(dict(light="l_rgb", backend=b, ops=["color"] + s3, brightness=0.5))
                parts.append(dict(light="l_rgb", backend=b, ops=["color"] + s3, brightness=0.25, pin={"fade_ms1": 300.0, "fade_ms2": 1200.0, "fade_ms3": 100.0}))
        for b in ("virtual", "soft", "direct", "batch"):
            for s3 in (["color", "color", "remove"], ["color", "remove", "color"], ["color", "color", "clear"]):
                parts.append(dict(light="l_rgb", backend=b, ops=["color"] + s3, profile=True))
                parts.append(dict(light="l_rgb", backend=b, ops=["color"] + s3, profile=True, brightness=0.5))
        for b in ("virtual", "soft", "direct", "batch"):
            for cols in ([0, None, 1, 0], [3, None, 4, 3], [4, None, 2, 4]):
                parts.append(dict(light="l_rgb", backend=b, ops=["color", "dim", "color", "color"], cols=cols, dim_to=0.5, pin={"key0": 0, "key2": 0, "key3": 0}))
                parts.append(dict(light="l_rgb", backend=b, ops=["color", "dim", "color", "color"], cols=cols, dim_to=0.25, pin={"key0": 0, "key2": 0, "key3": 0}, profile=True))
        for style in ("white_only", "min_rgb", "duck_rgb"):
            for b in ("virtual", "soft"):
                parts.append(dict(light="l_rgbw", backend=b, ops=["color", "color", "remove", "color"], rgbw_style=style))
                parts.append(dict(light="l_rgbw", backend=b, ops=["color", "color", "remove"], rgbw_style=style, profile=True))
    pb = 40 if tier == "quick" else 300
    return [Scenario("stack", setup, body, parts, teardown=teardown, part_budget=pb, per_path_timeout=30)]
