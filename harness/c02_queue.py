"""C02 Queue, relay and boolean events complete exactly once and in order. DESIGN.md section 2/C02."""
import asyncio

from engine.runner import Scenario
from engine.symdrv import Violation
from engine import stubs, symloop

ANCHORS = ["mpf/core/events.py", "mpf/core/mode.py", "mpf/core/mode_controller.py", "mpf/config_players/queue_event_player.py",
           "mpf/config_players/queue_relay_player.py"]
FUNCTIONS = ["EventManager.post_queue", "EventManager._process_queue_event", "EventManager._run_handlers_sequential", "QueuedEvent.wait/clear",
             "EventManager.add_async_handler/_async_handler_coroutine/_async_handler_done", "EventManager.post_relay", "EventManager.post_boolean",
             "EventManager._run_handlers (relay/boolean branches)", "EventManager.stop", "Mode.start/_started (wait queue)", "Mode.stop/_stopped (queue release)"]
EXPLANATION = ("Bounded symbolic execution (CrossHair/z3) of the real queue/relay/boolean dispatch on a symbolic-time asyncio loop: three "
               "handlers of symbolic kind (sync, wait then clear after a symbolic real delay, async coroutine sleeping a symbolic delay), symbolic "
               "integer priorities, registered and posted kwargs, an optional nested queue event posted from a handler and a second queue event posted "
               "at a symbolic instant; relay and boolean events with symbolic returned values; plus a booted machine in which a mode with use_wait_queue "
               "(holding a logic block, i.e. a handler on mode_<n>_starting) is started from inside a queue event.")
NONTRIVIAL_RULE = "the callback ran and at least one handler registered a wait (queue) / returned a value (relay, boolean)"
BOUNDS = {"handlers": 3, "delays_s": "[0,1] real", "priorities": "unbounded ints", "nested_queue_events": 1, "concurrent_queue_events": 2, "horizon_s": 10}
ASSUMPTIONS = ["equal priorities: any relative order accepted", "two clears at exactly the same instant: either order accepted (assumed away where the oracle needs an order)",
               "bounded liveness: the callback must have run 10 s after the last clear"]
BUDGET = {"quick": 100, "thorough": 600}


def setup(part):
    stubs.shims()
    return symloop.new_loop()


def teardown(loop):
    try:
        loop._ready.clear()
        loop._scheduled.clear()
        loop.close()
    except Exception:  # pylint: disable=broad-except
        pass


def body_queue(S, loop, part):
    from mpf.core.events import EventManager
    S.now_symbolic(loop)
    m = stubs.StubMachine(loop)
    em = EventManager(m)
    m.events = em
    log = []
    outstanding = {"outer": 0, "inner": 0, "second": 0}
    failures = []
    kinds = part["kinds"]                 # kind per outer handler: 0 sync, 1 wait+clear, 2 async coroutine, 3 wait, clear, wait again + clear later
    prio = [S.int("p%d" % i, -1000, 1000) for i in range(3)]
    delay = [S.real("d%d" % i, 0, 1) for i in range(4)]
    nested_from = part["nested_from"]     # which outer handler posts the inner queue event (or None)
    regv = S.int("registered_v", -5, 5)
    postv = S.int("posted_v", -5, 5)

    def add(ev, idx, kind, priority, d, post_inner=False, reg=None):
        def enter(v):
            if outstanding[ev]:
                failures.append(("no-handler-while-wait-outstanding", "_run_handlers_sequential", "%s handler %d started while an earlier wait of the same event is outstanding" % (ev, idx)))
            log.append((ev, "h", idx, v))
            if post_inner:
                em.post_queue("inner", lambda **kw: log.append(("inner", "cb")))
        kw = {"v": reg} if reg is not None else {}
        if kind == 2:
            async def co(v=None, **kwargs):
                enter(v)
                outstanding[ev] += 1
                await asyncio.sleep(d)
                outstanding[ev] -= 1
                log.append((ev, "c", idx))
            em.add_async_handler(ev, co, priority=priority, **kw)
        else:
            def h(queue, v=None, **kwargs):
                enter(v)
                if kind == 3:
                    # a wait that is cleared at once, then a second wait on the same QueuedEvent which stays outstanding
                    queue.wait()
                    queue.clear()
                if kind in (1, 3):
                    queue.wait()
                    outstanding[ev] += 1

                    def clr():
                        outstanding[ev] -= 1
                        log.append((ev, "c", idx))
                        queue.clear()
                    loop.call_later(d, clr)
            em.add_handler(ev, h, priority=priority, **kw)
    add("outer", 0, kinds[0], prio[0], delay[0], post_inner=(nested_from == 0), reg=regv)
    add("outer", 1, kinds[1], prio[1], delay[1], post_inner=(nested_from == 1))
    # a conditional sync handler (lowest priority): its condition reads state that the earlier handlers change when they finish
    state = {"flag": part["cond"][0] if "cond" in part else bool(S.bool("cond_initial"))}
    flips = part["cond"][1] if "cond" in part else bool(S.bool("first_handler_flips_condition"))
    cond_eval = []

    class Cond:
        def evaluate(self, kwargs):
            cond_eval.append((state["flag"], len([x for x in log if x[0] == "outer" and x[1] == "c"])))
            return state["flag"]

    def hc(**kwargs):
        log.append(("outer", "hc"))
    key = em.add_handler("outer", hc, priority=-2000)
    lst = em.registered_handlers["outer"]
    for i, rh in enumerate(lst):
        if rh.key == key.key:
            lst[i] = rh._replace(condition=Cond())
    orig_log_append = log.append
    if flips:
        # the flag flips when the first wait/coroutine of the outer event has been cleared (or at once if nothing waits)
        class L(list):
            def append(self, x):
                list.append(self, x)
                if x[0] == "outer" and x[1] == "c" and not getattr(self, "_done", False):
                    self._done = True
                    state["flag"] = not state["flag"]
        log = L(log)
    add("inner", 0, 1, prio[2], delay[2])
    add("second", 0, kinds[2], 1, delay[3])
    em.post_queue("outer", lambda **kw: log.append(("outer", "cb", kw.get("v"))), v=postv)
    t2 = S.real("t_second", 0, 1.5)
    loop.call_later(t2, lambda: em.post_queue("second", lambda **kw: log.append(("second", "cb"))))
    loop.run_for(10)
    if failures:
        raise Violation(*failures[0])
    for ev in ("outer", "second") + (("inner",) if nested_from is not None else ()):
        cbs = [i for i, x in enumerate(log) if x[0] == ev and x[1] == "cb"]
        if len(cbs) != 1:
            raise Violation("callback-exactly-once", "_run_handlers_sequential", "%s callback ran %d times; log %s" % (ev, len(cbs), log))
        for x in log[cbs[0] + 1:]:
            if x[0] == ev:
                raise Violation("callback-only-after-all-handlers-and-waits", "_run_handlers_sequential", "%s activity %s after its callback" % (ev, x))
    if any(outstanding.values()):
        raise Violation("callback-only-after-all-handlers-and-waits", "QueuedEvent.clear", "wait outstanding at the end: %s" % outstanding)
    hs = [x for x in log if x[0] == "outer" and x[1] == "h"]
    if sorted(x[2] for x in hs) != [0, 1]:
        raise Violation("every-handler-runs", "_run_handlers_sequential", "outer handlers ran: %s" % hs)
    order = [x[2] for x in hs]
    if (prio[0] > prio[1] and order != [0, 1]) or (prio[1] > prio[0] and order != [1, 0]):
        raise Violation("priority-order", "add_handler", "outer handlers ran as %s with priorities %s/%s" % (order, prio[0], prio[1]))
    for x in hs:
        want = regv if x[2] == 0 else postv
        if x[3] != want:
            raise Violation("registered-kwargs-override-posted", "_run_handlers_sequential", "outer handler %d saw v=%s expected %s" % (x[2], x[3], want))
    ran_cond = ("outer", "hc") in log
    want_cond = state["flag"]          # the value the condition has when the handler's turn comes = final value (it is last)
    if ran_cond != want_cond:
        raise Violation("conditional-handler-acts-on-current-value", "_run_handlers_sequential",
                        "conditional handler %s although its condition is %s when its turn comes (evaluations %s)" % ("ran" if ran_cond else "did not run", want_cond, cond_eval))
    cb = [x for x in log if x[0] == "outer" and x[1] == "cb"][0]
    if cb[2] != postv:
        raise Violation("callback-gets-posted-kwargs", "_run_handlers_sequential", "callback saw v=%s, posted %s" % (cb[2], postv))
    S.note("nontrivial", 1 in kinds or 2 in kinds or 3 in kinds)
    S.note("kinds", str(kinds))


def body_relay_bool(S, loop, part):
    from mpf.core.events import EventManager
    m = stubs.StubMachine(loop)
    em = EventManager(m)
    m.events = em
    prio = [S.int("p%d" % i, -1000, 1000) for i in range(3)]
    S.assume(prio[0] != prio[1] and prio[1] != prio[2] and prio[0] != prio[2])
    seen = []
    result = []
    if part["type"] == "relay":
        add = [S.int("add%d" % i, -5, 5) for i in range(3)]
        ret_kind = [S.choice("ret%d" % i, 3) for i in range(3)]       # 0: return dict, 1: return None, 2: return non-dict

        newkey = part["newkey"] if "newkey" in part else [bool(S.bool("adds_new_key%d" % i)) for i in range(3)]
        seen_w = []

        bare = bool(part.get("bare"))
        regkw = [bool(S.bool("handler%d_has_registered_kwargs" % i)) for i in range(3)] if bare else [False] * 3
        seen_k = []

        def mk(i):
            def h(v=0, w=None, k=None, **kwargs):
                seen.append((i, v))
                seen_w.append((i, w))
                seen_k.append((i, k))
                if ret_kind[i] == 0:
                    if newkey[i]:
                        return {"v": v + add[i], "w": 100 + i}
                    return {"v": v + add[i]}
                if ret_kind[i] == 2:
                    return 7
                return None
            return h
        for i in range(3):
            if regkw[i]:
                em.add_handler("ev", mk(i), priority=prio[i], k=10 + i)
            else:
                em.add_handler("ev", mk(i), priority=prio[i])
        if bare:
            # posted without any argument: the relayed arguments are entirely what the handlers return
            v0 = 0
            em.post_relay("ev", callback=lambda **kw: result.append(dict(kw, v=kw.get("v", 0))))
        else:
            v0 = S.int("v0", -5, 5)
            em.post_relay("ev", callback=lambda **kw: result.append(kw), v=v0)
        em.process_event_queue()
        for i, k in seen_k:
            if k != (10 + i if regkw[i] else None):
                raise Violation("registered-kwargs-override-posted", "_run_handlers", "relay handler %d saw k=%s (registered kwargs: %s)" % (i, k, regkw[i]))
        order = sorted(range(3), key=lambda i: -prio[i])
        cur = v0
        cur_w = None
        for pos, i in enumerate(order):
            if pos < len(seen_w) and seen_w[pos][1] != cur_w:
                raise Violation("relay-hands-updated-arguments", "_run_handlers", "handler %d saw w=%s, expected %s (an argument added by an earlier handler)" % (i, seen_w[pos][1], cur_w))
            if ret_kind[i] == 0 and newkey[i]:
                cur_w = 100 + i
            if pos >= len(seen) or seen[pos][0] != i:
                raise Violation("priority-order", "_run_handlers", "relay handlers ran as %s expected %s" % ([s[0] for s in seen], order))
            if seen[pos][1] != cur:
                raise Violation("relay-hands-updated-arguments", "_run_handlers", "handler %d saw v=%s, expected %s (as updated by earlier handlers)" % (i, seen[pos][1], cur))
            if ret_kind[i] == 0:
                cur = cur + add[i]
        if len(result) == 1 and result[0].get("w") != cur_w:
            raise Violation("relay-returns-final-arguments", "_process_event", "relay result %s lacks w=%s" % (result, cur_w))
        if len(result) != 1 or result[0].get("v") != cur:
            raise Violation("relay-returns-final-arguments", "_process_event", "relay result %s expected v=%s" % (result, cur))
    else:
        # 0: False, 1: True, 2: None, 3..5: falsy values that are not False (only False itself vetoes)
        rets = [S.choice("ret%d" % i, 6) for i in range(3)]

        def mk(i):
            def h(**kwargs):
                seen.append(i)
                return (False, True, None, 0, "", {})[rets[i]]
            return h
        for i in range(3):
            em.add_handler("ev", mk(i), priority=prio[i])
        em.post_boolean("ev", callback=lambda **kw: result.append(kw))
        em.process_event_queue()
        order = sorted(range(3), key=lambda i: -prio[i])
        want = []
        stopped = False
        for i in order:
            want.append(i)
            if rets[i] == 0:
                stopped = True
                break
        if seen != want:
            raise Violation("boolean-stops-at-first-false", "_run_handlers", "handlers ran %s expected %s (returns %s)" % (seen, want, rets))
        if len(result) != 1:
            raise Violation("callback-exactly-once", "_process_event", "boolean callback ran %d times" % len(result))
        if stopped and result[0].get("ev_result") is not False:
            raise Violation("boolean-reports-false", "_run_handlers", "callback kwargs %s although a handler returned False" % result[0])
        if not stopped and result[0].get("ev_result") is False:
            raise Violation("boolean-reports-false", "_run_handlers", "callback reports False although no handler returned False")
    S.note("nontrivial", len(seen) > 0)
    S.note("type", part["type"])


def body_abort(S, loop, part):
    """EventManager.stop() (machine shutdown) while a queue event is parked on a wait: the event was never completed, so its
    completion callback must not run and the handlers behind the wait must not start."""
    from mpf.core.events import EventManager
    S.now_symbolic(loop)
    m = stubs.StubMachine(loop)
    em = EventManager(m)
    m.events = em
    log = []
    d = S.real("clear_after", 0, 1)
    t_stop = S.real("stop_at", 0, 1.5)
    S.assume(d != t_stop)
    kind = part["kind"]
    if kind == 2:
        async def co(**kwargs):
            log.append("h1")
            await asyncio.sleep(d)
            log.append("c1")
        em.add_async_handler("ev", co, priority=10)
    else:
        def h1(queue, **kwargs):
            log.append("h1")
            queue.wait()

            def clr():
                log.append("c1")
                queue.clear()
            loop.call_later(d, clr)
        em.add_handler("ev", h1, priority=10)
    em.add_handler("ev", lambda **kwargs: log.append("h2"), priority=5)
    em.post_queue("ev", lambda **kwargs: log.append("cb"))
    loop.call_later(t_stop, em.stop)
    loop.run_for(5)
    if t_stop < d:
        if "cb" in log or "h2" in log:
            raise Violation("callback-only-after-all-handlers-and-waits", "_run_handlers_sequential",
                            "event manager stopped at +%s while the wait (cleared at +%s) was outstanding, yet %s; log %s" % (
                                t_stop, d, "the completion callback ran" if "cb" in log else "the next handler ran", log))
    else:
        if log.count("cb") != 1 or log.count("h2") != 1 or log.index("h2") > log.index("cb"):
            raise Violation("callback-exactly-once", "_run_handlers_sequential", "log %s" % log)
    S.note("nontrivial", "h1" in log)
    S.note("stopped_before_clear", bool(t_stop < d))


def setup_modes(part):
    return stubs.boot("modes")


def teardown_modes(t):
    stubs.shutdown(t)


def body_modes(S, t, part):
    """a mode with use_wait_queue started from inside a queue event: the outer event completes exactly when the mode has stopped"""
    m = t.machine
    S.now_symbolic(t.loop)
    mode = m.modes[part["mode"]]
    done = []
    extra_wait = bool(S.bool("other_handler_waits"))
    d_extra = S.real("other_clear_after", 0, 2)
    stop_after = S.real("stop_after", 0.1, 3)
    p_other = S.int("other_priority", 0, 400)
    S.assume(p_other != mode.config['mode']['priority'])

    def other(queue, **kwargs):
        if extra_wait:
            queue.wait()
            t.loop.call_later(d_extra, queue.clear)
    m.events.add_handler("trigger", other, priority=p_other)
    m.events.add_handler("trigger", mode.start, priority=mode.config['mode']['priority'])
    m.events.post_queue("trigger", lambda **kw: done.append(t.loop.time()))
    t0 = t.loop.time()
    t.advance_time_and_run(0.05)
    S.assume(extra_wait is False or d_extra > 0.06 or d_extra < 0.04)
    if not mode.active:
        if mode.starting and not (extra_wait and p_other > mode.config['mode']['priority'] and d_extra > 0.05):
            raise Violation("accepted-start-becomes-active", "Mode.start", "mode %s is still 'starting' 50 ms after the queue event reached it (wait queue=%s)" % (mode.name, mode.config['mode']['use_wait_queue']))
    t.advance_time_and_run(stop_after)
    if not mode.active and not mode.starting:
        # the other handler ran first and still holds its wait: the mode has not been asked yet
        pass
    t.advance_time_and_run(2.5)
    if not mode.active:
        raise Violation("accepted-start-becomes-active", "Mode.start", "mode %s never became active" % mode.name)
    uses_wait = mode.config['mode']['use_wait_queue']
    if uses_wait and done:
        raise Violation("callback-only-after-all-handlers-and-waits", "Mode.start", "outer queue event completed while the wait-queue mode is still running")
    if not uses_wait and len(done) != 1:
        raise Violation("callback-exactly-once", "_run_handlers_sequential", "outer queue event callback ran %d times without any wait left" % len(done))
    stopped = mode.stop()
    t.advance_time_and_run(3)          # a lower-priority handler of the outer event may still hold its wait for up to 2 s
    if not stopped or mode.active:
        raise Violation("accepted-stop-completes", "Mode.stop", "stop() returned %s, active=%s" % (stopped, mode.active))
    if len(done) != 1:
        raise Violation("callback-exactly-once", "Mode._stopped", "outer queue event callback ran %d times after the mode stopped" % len(done))
    S.note("nontrivial", True)
    S.note("mode", part["mode"])


def scenarios(tier):
    qparts = []
    for k0 in range(3):
        for k1 in range(3):
            for nf in (None, 0, 1):
                n = len(qparts)
                qparts.append(dict(kinds=[k0, k1, (k0 + k1) % 3 if tier == "quick" else 1], nested_from=nf, cond=[bool(n & 1), bool(n & 2)]))
    qparts += [dict(kinds=[3, 0, 1], nested_from=None, cond=[True, False]), dict(kinds=[1, 3, 0], nested_from=0, cond=[False, True]), dict(kinds=[3, 2, 3], nested_from=1, cond=[True, True])]
    if tier != "quick":
        qparts += [dict(kinds=[k0, k1, k2], nested_from=nf) for k0 in range(4) for k1 in range(4) for k2 in (0, 2, 3) for nf in (None, 0, 1)]
    rparts = [dict(type="relay", newkey=[False, False, False], bare=True), dict(type="relay", newkey=[True, False, False], bare=True),
              dict(type="relay", newkey=[False, False, False]), dict(type="relay", newkey=[True, False, False]), dict(type="relay", newkey=[False, True, False]),
              dict(type="relay", newkey=[True, False, True]), dict(type="boolean")]
    if tier != "quick":
        rparts.append(dict(type="relay"))
    mparts = [dict(mode="mwait"), dict(mode="mplain")]
    pb = 50 if tier == "quick" else 240
    return [Scenario("queue", setup, body_queue, qparts, teardown=teardown, part_budget=pb, per_path_timeout=30),
            Scenario("abort", setup, body_abort, [dict(kind=1), dict(kind=2)], teardown=teardown, part_budget=pb, per_path_timeout=30),
            Scenario("relay_boolean", setup, body_relay_bool, rparts, teardown=teardown, part_budget=pb, per_path_timeout=30),
            Scenario("mode_wait_queue", setup_modes, body_modes, mparts, teardown=teardown_modes, part_budget=pb, per_path_timeout=30)]
