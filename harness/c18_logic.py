"""C18 Logic blocks count, accrue and sequence exactly as specified. DESIGN.md section 2/C18."""
from engine.runner import Scenario
from engine.symdrv import Violation
from engine import stubs

ANCHORS = ["mpf/devices/logic_blocks.py", "mpf/core/delays.py", "mpf/core/device_manager.py"]
FUNCTIONS = ["LogicBlock.enable/disable/reset/restart/complete", "LogicBlock._logic_block_timer_start/_logic_block_timeout",
             "Counter.count", "Counter.check_complete", "Counter.event_add/event_subtract/event_jump", "Counter.stop_ignoring_hits",
             "Accrual.hit", "Sequence.hit", "DeviceManager control-event wiring (events -> event_* handlers)"]
EXPLANATION = ("Bounded symbolic execution (CrossHair/z3) of the real logic-block devices on a booted machine. Counter: direction, "
               "count interval, start and completion values, reset/disable-on-complete, multiple-hit window and timeout are replaced after "
               "boot by solver variables; an operation sequence (count, enable, disable, reset, restart, add/subtract/jump, symbolic real wait) "
               "is driven through the real control events; a reference model written from the statement is compared after every operation "
               "(value, enabled, completed, hit and complete event counts). Accrual/sequence: symbolic step choices against set/strict-order models.")
NONTRIVIAL_RULE = "at least one hit was accepted and compared"
BOUNDS = {"quick": {"ops": 3, "interval": "[-3,3]\\{0}", "start/goal": "[-6,6]", "window_ms": "{0} or [1,1000] real", "timeout_s": "{0} or [0.5,5] real", "wait_s": "[0,6] real"},
          "thorough": {"ops": 5, "interval": "[-3,3]\\{0}", "start/goal": "[-6,6]", "window_ms": "{0} or [1,1000] real", "timeout_s": "{0} or [0.5,5] real", "wait_s": "[0,6] real"}}
ASSUMPTIONS = ["an operation exactly at the end of the hit window or at the timeout instant is assumed away",
               "hits keep counting after completion while the block stays enabled (statement: value = start + accepted hits)",
               "player-persisted blocks are C11's subject; here system-wide blocks"]
BUDGET = {"quick": 100, "thorough": 600}


class SymTemplate:
    def __init__(self, v):
        self.v = v

    def evaluate(self, *a, **k):
        return self.v

    evaluate_or_none = evaluate


def setup(part):
    return stubs.boot("logic_blocks")


def teardown(t):
    stubs.shutdown(t)


OPS = ["count", "enable", "disable", "reset", "restart", "wait", "add", "sub", "jump"]


def body_counter(S, t, part):
    m = t.machine
    c = m.counters["cnt"]
    S.now_symbolic(t.loop)
    up = bool(S.bool("direction_up"))
    mag = S.int("interval_magnitude", 1, 3)
    start = S.int("start", -6, 6)
    goal_set = bool(S.bool("has_goal"))
    goal = S.int("goal", -6, 6)
    roc = part["roc"] if "roc" in part else bool(S.bool("reset_on_complete"))
    doc = part["doc"] if "doc" in part else bool(S.bool("disable_on_complete"))
    has_window = part["window"]
    window = S.real("window_ms", 1, 1000) if has_window else 0
    has_timeout = part["timeout"]
    timeout = S.real("timeout_ms", 500, 5000) if has_timeout else 0
    c.config['direction'] = 'up' if up else 'down'
    c.hit_value = mag if up else -mag
    c.config['starting_count'] = SymTemplate(start)
    c.config['count_complete_value'] = SymTemplate(goal) if goal_set else None
    c.config['reset_on_complete'] = roc
    c.config['disable_on_complete'] = doc
    c.config['multiple_hit_window'] = window
    c.config['logic_block_timeout'] = timeout
    for cfg in c.config['control_events']:
        pass
    hits, completes, timeouts = [0], [0], [0]
    m.events.add_handler("cnt_hit", lambda **kwargs: hits.__setitem__(0, hits[0] + 1))
    m.events.add_handler("cnt_complete", lambda **kwargs: completes.__setitem__(0, completes[0] + 1))
    m.events.add_handler("cnt_timeout", lambda **kwargs: timeouts.__setitem__(0, timeouts[0] + 1))
    c.disable()
    c.reset()
    c.delay.clear()
    c.ignore_hits = False
    t.advance_time_and_run(0.01)
    hits[0] = completes[0] = timeouts[0] = 0
    # reference model
    M = dict(value=start, enabled=False, completed=False, ignore_until=None, timeout_due=None, hits=0, completes=0, timeouts=0)

    def reached(v):
        if not goal_set:
            return False
        return v >= goal if up else v <= goal

    def m_timer_start(now):
        if has_timeout:
            M["timeout_due"] = now + timeout / 1000.0

    def m_reset(now):
        M["completed"] = False
        M["value"] = start
        m_timer_start(now)

    def m_complete(now):
        if M["completed"]:
            return
        M["completed"] = True
        M["timeout_due"] = None
        M["completes"] += 1
        if roc:
            m_reset(now)
        if doc:
            M["enabled"] = False
            M["timeout_due"] = None

    def m_tick(now):
        """expire window and timeout strictly before `now`"""
        while M["timeout_due"] is not None:
            S.assume(M["timeout_due"] != now)
            if M["timeout_due"] < now:
                due = M["timeout_due"]
                M["timeouts"] += 1
                M["timeout_due"] = None
                m_reset(due)
            else:
                break
        if M["ignore_until"] is not None:
            S.assume(M["ignore_until"] != now)
            if M["ignore_until"] < now:
                M["ignore_until"] = None

    accepted = 0
    n = part["n"]
    for i in range(n):
        op = part["ops"][i] if i < len(part["ops"]) else part["alphabet"][S.choice("op%d" % i, len(part["alphabet"]))]
        now = t.loop.time()
        m_tick(now)
        if op == "count":
            m.events.post("cnt_count")
            if M["enabled"] and M["ignore_until"] is None:
                M["value"] += (mag if up else -mag)
                M["hits"] += 1
                accepted += 1
                if reached(M["value"]):
                    m_complete(now)
                if has_window:
                    M["ignore_until"] = now + window / 1000.0
        elif op == "enable":
            m.events.post("cnt_enable")
            M["enabled"] = True
            m_timer_start(now)
        elif op == "disable":
            m.events.post("cnt_disable")
            M["enabled"] = False
            M["timeout_due"] = None
        elif op == "reset":
            m.events.post("cnt_reset")
            m_reset(now)
        elif op == "restart":
            m.events.post("cnt_restart")
            m_reset(now)
            M["enabled"] = True
            m_timer_start(now)
        elif op in ("add", "sub", "jump"):
            m.events.post("cnt_" + op)
            if op == "add":
                M["value"] += 2
            elif op == "sub":
                M["value"] -= 1
            else:
                M["value"] = 1
            if reached(M["value"]):
                m_complete(now)
        elif op == "wait":
            t.advance_time_and_run(S.real("wait%d" % i, 0, 6))
            m_tick(t.loop.time())
        t.advance_time_and_run(0.001)
        m_tick(t.loop.time())
        got = (c.value, bool(c.enabled), bool(c.completed), hits[0], completes[0], timeouts[0])
        want = (M["value"], M["enabled"], M["completed"], M["hits"], M["completes"], M["timeouts"])
        if got != want:
            names = ("value", "enabled", "completed", "hit events", "complete events", "timeout events")
            bad = [nm for nm, g, w in zip(names, got, want) if g != w]
            clause = {"value": "value-equals-start-plus-accepted-hits", "enabled": "enable-disable-as-configured", "completed": "completion-state",
                      "hit events": "hit-event-once-per-accepted-hit", "complete events": "complete-event-exactly-once-per-completion",
                      "timeout events": "timeout-resets"}[bad[0]]
            raise Violation(clause, "Counter.count" if op == "count" else ("LogicBlock." + op if op in ("enable", "disable", "reset", "restart") else "Counter.event_" + op if op != "wait" else "LogicBlock._logic_block_timeout"),
                            "after op %d %s: (value, enabled, completed, hits, completes, timeouts) = %s, reference %s" % (i, op, got, want))
    # epilogue: latent state (a stuck hit window, a lost timer) shows on the next use: wait out the window, re-enable, count
    t.advance_time_and_run(1.5)
    m_tick(t.loop.time())
    m.events.post("cnt_enable")
    M["enabled"] = True
    m_timer_start(t.loop.time())
    m.events.post("cnt_count")
    t.advance_time_and_run(0.001)
    M["value"] += (mag if up else -mag)
    M["hits"] += 1
    if reached(M["value"]):
        m_complete(t.loop.time())
    got = (c.value, bool(c.enabled), bool(c.completed), hits[0], completes[0])
    want = (M["value"], M["enabled"], M["completed"], M["hits"], M["completes"])
    if got != want:
        raise Violation("value-equals-start-plus-accepted-hits", "Counter.count", "epilogue (wait 1.5 s, enable, count): (value, enabled, completed, hits, completes) = %s, reference %s" % (got, want))
    S.note("nontrivial", accepted > 0)
    S.note("accepted", accepted)


def body_steps(S, t, part):
    """accrual (any order) and sequence (strict order) with symbolic step choices"""
    m = t.machine
    kind = part["kind"]
    dev = m.accruals["acc"] if kind == "acc" else m.sequences["seq"]
    roc = bool(S.bool("reset_on_complete"))
    doc = bool(S.bool("disable_on_complete"))
    dev.config['reset_on_complete'] = roc
    dev.config['disable_on_complete'] = doc
    hits, completes = [], [0]
    m.events.add_handler(kind + "_hit", lambda step=None, **kwargs: hits.append(step))
    m.events.add_handler(kind + "_complete", lambda **kwargs: completes.__setitem__(0, completes[0] + 1))
    M = dict(done=[False, False, False], pos=0, enabled=bool(dev.enabled), completed=False, hits=0, completes=0)

    def m_reset():
        M["done"] = [False, False, False]
        M["pos"] = 0
        M["completed"] = False

    def m_complete():
        if M["completed"]:
            return
        M["completed"] = True
        M["completes"] += 1
        if roc:
            m_reset()
        if doc:
            M["enabled"] = False
    acc = 0
    for i in range(part["n"]):
        op = part["ops"][i] if i < len(part.get("ops", [])) else S.choice("op%d" % i, 6)        # 0..2 step events, 3 enable, 4 disable, 5 reset
        if op < 3:
            m.events.post("%s_s%d" % (kind, op))
            if M["enabled"]:
                if kind == "acc":
                    if not M["done"][op]:
                        M["done"][op] = True
                        M["hits"] += 1
                        acc += 1
                    if all(M["done"]):
                        m_complete()
                else:
                    # sequence events: step0 = seq_s0, step1 = seq_s0 again, step2 = seq_s2; seq_s1 is no step at all
                    if M["pos"] < 3 and op == (0, 0, 2)[M["pos"]]:
                        M["pos"] += 1
                        M["hits"] += 1
                        acc += 1
                        if M["pos"] >= 3:
                            m_complete()
        elif op == 3:
            m.events.post(kind + "_enable")
            M["enabled"] = True
        elif op == 4:
            m.events.post(kind + "_disable")
            M["enabled"] = False
        else:
            m.events.post(kind + "_reset")
            m_reset()
        t.advance_time_and_run(0.001)
        val = list(dev.value) if kind == "acc" else dev.value
        got = (val, bool(dev.enabled), bool(dev.completed), len(hits), completes[0])
        want = (M["done"] if kind == "acc" else M["pos"], M["enabled"], M["completed"], M["hits"], M["completes"])
        if got != want:
            raise Violation("accrual-any-order" if kind == "acc" else "sequence-strict-order", ("Accrual" if kind == "acc" else "Sequence") + ".hit",
                            "after op %d (%s): (value, enabled, completed, hits, completes) = %s, reference %s" % (i, op, got, want))
    S.note("nontrivial", acc > 0)
    S.note("accepted", acc)


def scenarios(tier):
    parts = []
    if tier == "quick":
        alpha = ["count", "enable", "disable", "reset", "wait"]
        for w, to in ((False, False), (True, False), (False, True)):
            firsts = (["enable", "count"], ["enable", "add"]) if not (w or to) else ((["enable", "count"],) if w else (["restart", "count"],))
            for first in firsts:
                al = alpha if (w or to) else ["count", "enable", "disable", "reset", "restart", "sub", "jump"]
                for third in al:
                    k = len(parts)
                    parts.append(dict(window=w, timeout=to, ops=first + [third], n=4, roc=bool(k & 1), doc=bool(k & 2), alphabet=al))
        # a block that neither resets nor disables on completion keeps its completed state: its timeout must be gone too
        parts.append(dict(window=False, timeout=True, ops=["restart", "count", "wait"], n=4, roc=False, doc=False, alphabet=alpha))
        parts.append(dict(window=False, timeout=True, ops=["restart", "count", "count", "wait"], n=4, roc=False, doc=False, alphabet=alpha))
        steps = [dict(kind=k, n=4, ops=[3, o]) for k in ("acc", "seq") for o in range(6)]
    else:
        alpha = ["count", "enable", "disable", "reset", "restart", "wait", "add", "sub", "jump"]
        for w, to in ((False, False), (True, False), (False, True), (True, True)):
            for a in ("enable", "restart"):
                for b in ("count", "add", "wait", "disable"):
                    parts.append(dict(window=w, timeout=to, ops=[a, b], n=5, alphabet=alpha))
        steps = [dict(kind=k, n=6, ops=[3, o, o2]) for k in ("acc", "seq") for o in range(6) for o2 in range(6)]
    pb = 80 if tier == "quick" else 300
    return [Scenario("counter", setup, body_counter, parts, teardown=teardown, part_budget=pb, per_path_timeout=30),
            Scenario("steps", setup, body_steps, steps, teardown=teardown, part_budget=pb, per_path_timeout=30)]
