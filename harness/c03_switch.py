"""C03 Switch state mirrors the hardware; handlers fire once per real change. DESIGN.md section 2/C03."""
from engine.runner import Scenario
from engine.symdrv import Violation
from engine import stubs

ANCHORS = ["mpf/core/switch_controller.py", "mpf/devices/switch.py"]
FUNCTIONS = ["SwitchController.process_switch_obj", "SwitchController._call_handlers",
             "SwitchController._cancel_timed_handlers", "SwitchController._add_timed_switch_handler",
             "SwitchController._process_active_timed_switches", "SwitchController.add_switch_handler_obj",
             "SwitchController.remove_switch_handler_obj", "SwitchController.is_active/is_inactive/is_state",
             "Switch._post_events", "Switch._post_events_with_recycle", "Switch._recycle_passed",
             "Switch._create_activation_event", "Switch.add_handler/remove_handler"]
EXPLANATION = ("Bounded symbolic execution (CrossHair/z3) of the real SwitchController and Switch device on a booted "
               "machine: a timeline of reports (state bit, logical flag symbolic), registrations and removals of timed "
               "handlers (hold time symbolic real) separated by symbolic real gaps; a reference model computed from the "
               "timeline says which handlers must have fired when; events and untimed handlers are counted.")
NONTRIVIAL_RULE = "at least one actual state change happened and the timed handler's state was entered at least once"
BOUNDS = {"quick": {"timeline_len": 4, "timed_handlers": "1-3", "hold_ms": "[1,3000] real", "gap_s": "[0,2] real"},
          "thorough": {"timeline_len": 5, "timed_handlers": "1-3", "hold_ms": "[1,3000] real", "gap_s": "[0,2] real"}}
ASSUMPTIONS = ["an instant that coincides exactly with a hold deadline (a change, a registration, a removal) is assumed away: the statement does not order them",
               "mute/unmute, monitors and platform-number lookup are not exercised",
               "ignore_window_ms scenario: only the statement-level claim 'first change posts once, duplicates nothing' is checked"]
BUDGET = {"quick": 100, "thorough": 600}


def setup(part):
    return stubs.boot("switches")


def teardown(t):
    stubs.shutdown(t)


def body(S, t, part):
    m = t.machine
    sw = m.switches[part["switch"]]
    invert = 1 if part["switch"] == "s_nc" else 0
    seq = part["seq"]
    S.now_symbolic(t.loop)
    t0 = t.loop.time()
    fired = {"A": [], "B": [], "C": []}
    untimed = {0: 0, 1: 0}
    evs = {0: 0, 1: 0}
    short = part["switch"][2:]
    m.events.add_handler("ev_%s_active" % short, lambda **kwargs: evs.__setitem__(1, evs[1] + 1))
    m.events.add_handler("ev_%s_inactive" % short, lambda **kwargs: evs.__setitem__(0, evs[0] + 1))
    sw.add_handler(lambda: untimed.__setitem__(1, untimed[1] + 1), state=1)
    sw.add_handler(lambda: untimed.__setitem__(0, untimed[0] + 1), state=0)
    removed = set()          # handlers that are removed right now: must never be invoked
    by_callback = set()      # ... those removed from inside another timed handler's callback
    late_calls = []
    cbs = {}

    def mk(k):
        def cb():
            if k in removed:
                late_calls.append((k, t.loop.time()))
            fired[k].append(t.loop.time())
            if part.get("remover") == k:
                for v in part["victims"]:
                    if v in reg_at and v not in removed:
                        sw.remove_handler(cbs[v], state=hstate[v], ms=hold[v])
                        removed.add(v)
                        by_callback.add(v)
                        rem_at[v] = t.loop.time()
        return cb
    for k in "ABC":
        cbs[k] = mk(k)
    hstate = {k: (1 if S.bool("hstate_" + k) else 0) for k in ("A", "B", "C") if k in seq}
    if part.get("same_state"):
        for k in hstate:
            hstate[k] = 1
    hold = {k: S.real("hold_ms_" + k, 1, 3000) for k in ("A", "B", "C") if k in seq}
    if part.get("same_hold"):
        for k in hold:
            hold[k] = hold["A"]
    reg_at, rem_at = {}, {}
    # reference timeline: list of (time, new logical state) of ACTUAL changes; initial state 0 since "for ever"
    changes = []
    state = initial = sw.state
    exp_untimed = {0: 0, 1: 0}
    n_rep = 0
    for i, a in enumerate(seq):
        gap = S.real("gap%d" % i, 0, 2) if i else 0.25
        t.advance_time_and_run(gap)
        now = t.loop.time()
        if a == "R":
            bit = 1 if S.bool("state%d" % i) else 0
            logical = S.bool("logical%d" % i) if part.get("sym_logical") else True
            n_rep += 1
            # the three entry points a report can come through (platform by number, by name, by object) must agree
            via = S.choice("via%d" % i, 3) if part.get("sym_entry") else 2
            if via == 0:
                m.switch_controller.process_switch_by_num(sw.hw_switch.number, bit, sw.platform, logical)
            elif via == 1:
                m.switch_controller.process_switch(sw.name, bit, logical)
            else:
                m.switch_controller.process_switch_obj(sw, bit, logical)
            new = bit if logical else bit ^ invert
            if new != state:
                state = new
                changes.append((now, new))
                exp_untimed[new] += 1
            # clause: logical state equals the last reported state
            if sw.state != state or bool(m.switch_controller.is_active(sw)) != bool(state) or \
                    bool(m.switch_controller.is_inactive(sw)) == bool(state):
                raise Violation("state-mirrors-last-report", "process_switch_obj",
                                "after report %d (bit=%s logical=%s invert=%s) state=%s expected %s" % (i, bit, logical, invert, sw.state, state))
            if changes and sw.hw_state != (state ^ invert):
                raise Violation("hw-state-mirrors-last-report", "process_switch_obj", "hw_state %s" % sw.hw_state)
        elif a in "ABC":
            sw.add_handler(cbs[a], state=hstate[a], ms=hold[a])
            reg_at[a] = now
        elif a in "DE":
            k = "A" if a == "D" else "B"
            if k not in removed:
                sw.remove_handler(cbs[k], state=hstate[k], ms=hold[k])
                removed.add(k)
                rem_at[k] = now
    t.advance_time_and_run(6)
    end = t.loop.time()
    m.events.process_event_queue()
    # ---- oracle --------------------------------------------------------------------------------
    if untimed != exp_untimed:
        raise Violation("untimed-handler-once-per-change", "_call_handlers", "calls %s expected %s" % (untimed, exp_untimed))
    if evs != exp_untimed:
        raise Violation("configured-events-once-per-change", "Switch._post_events", "events %s expected %s" % (evs, exp_untimed))
    if late_calls:
        raise Violation("removed-handler-never-fires", "_process_active_timed_switches", "handler %s invoked at +%s after it had been removed at +%s%s" % (
            late_calls[0][0], late_calls[0][1] - t0, rem_at[late_calls[0][0]] - t0, " (from the callback of a handler due at the same time)" if late_calls[0][0] in by_callback else ""))
    entered = False
    for k in hstate:
        expected = []
        tie = False
        # intervals during which the switch is in hstate[k]
        ivs = []
        if hstate[k] == initial:
            ivs.append((None, changes[0][0] if changes else end))
        for j, (tc, st) in enumerate(changes):
            if st == hstate[k]:
                ivs.append((tc, changes[j + 1][0] if j + 1 < len(changes) else end))
        for c, e in ivs:
            if c is None:
                continue        # in state since before the scenario: deadline lies 100000 s in the past
            entered = True
            dl = c + hold[k] / 1000.0
            S.assume(dl != e)
            S.assume(dl != reg_at[k])
            if k in rem_at and k not in by_callback:
                S.assume(dl != rem_at[k])
            if k in by_callback and dl == rem_at[k]:
                # removed by a callback that is due at the very same instant: fires or not depending on which one comes first;
                # the late_calls check above has already made sure it was not invoked after the removal
                tie = dl < e and reg_at[k] < dl
                continue
            if dl < e and reg_at[k] < dl and (k not in rem_at or rem_at[k] > dl):
                expected.append(dl)
        got = fired[k]
        if tie:
            got = [g for g in got if g != rem_at[k]]
        if len(got) != len(expected):
            raise Violation("timed-handler-fires-iff-held", "add_switch_handler_obj" if len(got) > len(expected) else "_process_active_timed_switches",
                            "handler %s (state %s, hold %s ms, registered at +%s, removed at %s) fired at %s expected %s; changes %s" % (
                                k, hstate[k], hold[k], reg_at[k] - t0, rem_at.get(k), [x - t0 for x in got], [x - t0 for x in expected],
                                [(c - t0, s) for c, s in changes]))
        for g, x in zip(got, expected):
            if g != x:
                raise Violation("timed-handler-fires-at-deadline", "_process_active_timed_switches", "fired at +%s expected +%s" % (g - t0, x - t0))
    S.note("nontrivial", bool(changes) and (entered or not hstate))
    S.note("changes", len(changes))


def body_window(S, t, part):
    """ignore_window_ms (recycle) and time-qualified configured events (ev|250ms): posted once per qualifying change"""
    m = t.machine
    S.now_symbolic(t.loop)
    name = part["switch"]
    sw = m.switches[name]
    got = {"a": [], "i": []}
    if name in ("s_win", "s_win_nc"):
        stem = "ev_win" if name == "s_win" else "ev_winnc"
        m.events.add_handler(stem + "_active", lambda **kwargs: got["a"].append(t.loop.time()))
        m.events.add_handler(stem + "_inactive", lambda **kwargs: got["i"].append(t.loop.time()))
    else:
        m.events.add_handler("ev_t_active", lambda **kwargs: got["a"].append(t.loop.time()))
        m.events.add_handler("ev_t_inactive", lambda **kwargs: got["i"].append(t.loop.time()))
    t0 = t.loop.time()
    changes = []
    state = sw.state
    for i in range(part["n"]):
        gap = S.real("gap%d" % i, 0.001, 0.6)
        t.advance_time_and_run(gap)
        bit = 1 if S.bool("state%d" % i) else 0
        m.switch_controller.process_switch_obj(sw, bit, True)
        if bit != state:
            state = bit
            changes.append((t.loop.time(), bit))
    t.advance_time_and_run(2)
    end = t.loop.time()
    if name == "s_timed_ev":
        # ev_t_active|250ms: once, 250 ms after each activation that lasted that long; ev_t_inactive|400ms likewise
        for st, hold, key in ((1, 0.25, "a"), (0, 0.4, "i")):
            exp = []
            for j, (tc, b) in enumerate(changes):
                if b != st:
                    continue
                nxt = changes[j + 1][0] if j + 1 < len(changes) else end
                S.assume(tc + hold != nxt)
                if tc + hold < nxt:
                    exp.append(tc + hold)
            if got[key] != exp:
                raise Violation("configured-timed-event-once-per-qualifying-change", "Switch._create_activation_event", "state %d|%s s: events at %s expected %s; changes %s" % (
                    st, hold, [x - t0 for x in got[key]], [x - t0 for x in exp], [(c - t0, b) for c, b in changes]))
    else:
        # ignore window 100 ms: the first change posts at once and opens a window; changes inside the window post nothing;
        # when the window closes in a state different from the one that opened it, that state is posted then
        exp = {"a": [], "i": []}
        window_end = None
        opened_state = None
        k = 0
        timeline = list(changes)
        while k < len(timeline) or window_end is not None:
            nxt_change = timeline[k] if k < len(timeline) else None
            if window_end is not None and (nxt_change is None or window_end < nxt_change[0]):
                # window closes
                cur = opened_state
                for tc, b in changes:
                    if tc <= window_end:
                        cur = b
                if cur != opened_state:
                    exp["a" if cur else "i"].append(window_end)
                window_end = None
                continue
            if nxt_change is None:
                break
            tc, b = nxt_change
            if window_end is not None:
                S.assume(tc != window_end)
            if window_end is None:
                exp["a" if b else "i"].append(tc)
                window_end = tc + 0.1
                opened_state = b
            k += 1
        for key in ("a", "i"):
            if got[key] != exp[key]:
                raise Violation("ignore-window-posts-once", "Switch._post_events_with_recycle", "%s events at %s expected %s; changes %s" % (
                    "active" if key == "a" else "inactive", [x - t0 for x in got[key]], [x - t0 for x in exp[key]], [(c - t0, b) for c, b in changes]))
    S.note("nontrivial", len(changes) >= 1)
    S.note("changes", len(changes))


def _seqs(n, two):
    out = []

    def rec(prefix):
        if len(prefix) == n:
            if "A" in prefix and prefix.count("R") >= 2 and not prefix.endswith("A"):
                out.append(prefix)
            return
        for c in "RADBE" if two else "RAD":
            if c == "A" and "A" in prefix:
                continue
            if c == "B" and ("B" in prefix or "A" not in prefix):
                continue
            if c == "D" and ("A" not in prefix or "D" in prefix):
                continue
            if c == "E" and ("B" not in prefix or "E" in prefix):
                continue
            rec(prefix + c)
    rec("")
    return out


def scenarios(tier):
    if tier == "quick":
        seqs = _seqs(4, False) + ["ABRR", "ARBR"]
    else:
        seqs = _seqs(5, False) + [s for s in _seqs(5, True) if "B" in s]
    parts = [dict(switch=sw, seq=s) for sw in ("s_no", "s_nc") for s in seqs]
    if tier == "quick":
        parts = [p for p in parts if p["switch"] == "s_no" or p["seq"] in ("RARR", "RRAD", "ARDR", "ABRR")]
        parts.append(dict(switch="s_no", seq="ABCR", same_state=True))
        parts.append(dict(switch="s_no", seq="ABCR", same_state=True, same_hold=True, remover="A", victims=["B"]))
        parts.append(dict(switch="s_no", seq="ABCR", same_state=True, remover="B", victims=["A", "C"]))
        parts.append(dict(switch="s_nc", seq="RRR", sym_logical=True))
        parts.append(dict(switch="s_no", seq="RRR", sym_logical=True))
        parts.append(dict(switch="s_nc", seq="RRRR", sym_logical=True, sym_entry=True))
        parts.append(dict(switch="s_no", seq="RRRR", sym_entry=True))
    else:
        parts += [dict(switch=sw, seq=q, same_state=True) for sw in ("s_no", "s_nc") for q in ("ABCRR", "ABRCR", "RABCR")]
        parts += [dict(switch=sw, seq=q, sym_logical=True) for sw in ("s_no", "s_nc") for q in ("RRRR", "RARR", "ARRD")]
        parts += [dict(switch=sw, seq=q, sym_logical=True, sym_entry=True) for sw in ("s_no", "s_nc") for q in ("RRRRR", "RARRR")]
        parts += [dict(switch=sw, seq=q, same_state=True, same_hold=sh, remover=r, victims=[v for v in "ABC" if v != r])
                  for sw in ("s_no", "s_nc") for q in ("ABCR", "ABCRR") for sh in (True, False) for r in "AB"]
    wparts = [dict(switch="s_timed_ev", n=3 if tier == "quick" else 4), dict(switch="s_win", n=3 if tier == "quick" else 4), dict(switch="s_win_nc", n=3 if tier == "quick" else 4)]
    return [Scenario("timeline", setup, body, parts, teardown=teardown, part_budget=70 if tier == "quick" else 300, per_path_timeout=30),
            Scenario("configured_events", setup, body_window, wparts, teardown=teardown, part_budget=70 if tier == "quick" else 300, per_path_timeout=30)]
