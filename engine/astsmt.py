"""E2: tiny Python-AST -> z3 translator for leaf kernels (table-driven CRC). DESIGN.md section 1.2.

The function's source is re-read from /repo through `inspect` on every run.  Supported subset: assignments, augmented
assignments, `while`/`for`/`if` with CONCRETE control flow (loop counters, lengths), `return`, a guarding `raise`,
integer constants, names, `+ ^ &`, `<`, `len`, `bytes([x])`, constant-table subscripts with a symbolic 8-bit index
(balanced mux), attribute constants resolved from the imported module.  Anything else raises NotImplementedError,
which the caller reports as inconclusive.
"""
import ast
import inspect
import textwrap

import z3


class _Ret(Exception):
    def __init__(self, v):
        self.v = v


def mux(table, x):
    """table[x] for a 256-entry constant table and an 8-bit vector x: balanced multiplexer over the index bits."""
    assert len(table) == 256

    def rec(lo, hi, bit):
        if hi - lo == 1:
            return z3.BitVecVal(table[lo], 8)
        mid = (lo + hi) // 2
        return z3.If(z3.Extract(bit, bit, x) == 1, rec(mid, hi, bit - 1), rec(lo, mid, bit - 1))
    return rec(0, 256, 7)


class Translator:
    MAX_UNWIND = 64

    def __init__(self, fn, consts):
        src = textwrap.dedent(inspect.getsource(fn))
        self.fdef = ast.parse(src).body[0]
        while not isinstance(self.fdef, ast.FunctionDef):
            self.fdef = self.fdef.body[0]
        self.consts = consts
        self.source = src

    def call(self, *args):
        env = dict(zip([a.arg for a in self.fdef.args.args], args))
        try:
            self.block(self.fdef.body, env)
        except _Ret as r:
            return r.v
        return None

    def block(self, stmts, env):
        for s in stmts:
            self.stmt(s, env)

    def stmt(self, s, env):
        if isinstance(s, ast.Expr):
            return
        if isinstance(s, ast.Assign):
            env[s.targets[0].id] = self.ev(s.value, env)
            return
        if isinstance(s, ast.AugAssign):
            env[s.target.id] = self.binop(s.op, env[s.target.id], self.ev(s.value, env))
            return
        if isinstance(s, ast.If):
            c = self.ev(s.test, env)
            if not isinstance(c, bool):
                raise NotImplementedError("symbolic control flow")
            self.block(s.body if c else s.orelse, env)
            return
        if isinstance(s, ast.While):
            n = 0
            while True:
                c = self.ev(s.test, env)
                if not isinstance(c, bool):
                    raise NotImplementedError("symbolic loop condition")
                if not c:
                    break
                self.block(s.body, env)
                n += 1
                if n > self.MAX_UNWIND:
                    raise AssertionError("unwinding assertion: loop exceeds %d iterations" % self.MAX_UNWIND)
            return
        if isinstance(s, ast.For):
            for v in self.ev(s.iter, env):
                env[s.target.id] = v
                self.block(s.body, env)
            return
        if isinstance(s, ast.Return):
            raise _Ret(self.ev(s.value, env))
        if isinstance(s, ast.Raise):
            raise AssertionError("raise reached on the encoded path")
        raise NotImplementedError(ast.dump(s)[:80])

    @staticmethod
    def binop(op, a, b):
        if isinstance(op, ast.Add):
            return a + b
        if isinstance(op, ast.BitXor):
            return a ^ b
        if isinstance(op, ast.BitAnd):
            return a & b
        raise NotImplementedError(type(op).__name__)

    def ev(self, e, env):
        if isinstance(e, ast.Constant):
            return e.value
        if isinstance(e, ast.Name):
            return env[e.id]
        if isinstance(e, ast.BinOp):
            return self.binop(e.op, self.ev(e.left, env), self.ev(e.right, env))
        if isinstance(e, ast.Compare):
            a, b = self.ev(e.left, env), self.ev(e.comparators[0], env)
            if isinstance(e.ops[0], ast.Lt):
                return a < b
            raise NotImplementedError(type(e.ops[0]).__name__)
        if isinstance(e, ast.Call):
            f = e.func
            if isinstance(f, ast.Name) and f.id == "len":
                return len(self.ev(e.args[0], env))
            if isinstance(f, ast.Name) and f.id == "bytes":
                return self.ev(e.args[0], env)          # bytes([x]) -> [x]
            raise NotImplementedError(ast.dump(f)[:80])
        if isinstance(e, ast.List):
            return [self.ev(x, env) for x in e.elts]
        if isinstance(e, ast.Attribute):
            return self.consts[ast.unparse(e)]
        if isinstance(e, ast.Subscript):
            base, idx = self.ev(e.value, env), self.ev(e.slice, env)
            if isinstance(idx, int):
                return base[idx]
            return mux(base, idx)
        raise NotImplementedError(ast.dump(e)[:80])
