"""Deterministic asyncio loop with virtual (possibly symbolic) time. DESIGN.md section 1.1.

* never hashes instants (mpf's TimeTravelLoop keeps a set of instants -> realises symbolic time)
* own _run_once: every timer with when <= now becomes ready, otherwise now jumps to the heap head
* optional lateness: a handle due at w may be run at w + j, j supplied by `late(handle)`
"""
import asyncio
import heapq
import sys

from mpf.tests import loop as tl
import mpf.tests.MpfTestCase as mtc


class SymLoop(tl.TimeTravelLoop):

    late = None          # optional callable(handle) -> extra delay (symbolic real >= 0)

    def call_at(self, when, callback, *args, **kwargs):
        return tl.base_events.BaseEventLoop.call_at(self, when, callback, *args, **kwargs)

    def _run_once(self):
        sched = self._scheduled

        def due():
            while sched:
                n = sched[0]
                if n._cancelled:
                    heapq.heappop(sched)
                    n._scheduled = False
                    self._timer_cancelled_count -= 1
                    continue
                if n._when <= self._time:
                    heapq.heappop(sched)
                    n._scheduled = False
                    self._ready.append(n)
                else:
                    break
        due()
        if not self._ready:
            if not sched:
                if not self._closed and not self._stopped and not self._selector.select(0):
                    raise AssertionError("SymLoop idle: nothing scheduled, nothing ready")
            else:
                head = sched[0]
                t = head._when
                if self.late is not None:
                    t = t + self.late(head)
                self._time = t
                due()
        self._process_events(self._selector.select(0))
        for _ in range(len(self._ready)):
            h = self._ready.popleft()
            if not h._cancelled:
                h._run()

    # --- helpers for unit harnesses -------------------------------------------------------------
    def run_for(self, dt):
        async def _sleep():
            await asyncio.sleep(dt)
        self.run_until_complete(_sleep())


def install():
    """Make MpfTestCase boot machines on SymLoop."""
    mtc.TimeTravelLoop = SymLoop


def new_loop():
    loop = SymLoop()
    asyncio.set_event_loop(loop)
    return loop
