"""E1 driver: bounded path exploration of the real mpf code on CrossHair's library API (z3 decides).

Design: DESIGN.md section 1.1.  A harness supplies

    setup(part)          -> ctx       concrete, untraced (boot a machine / build a unit)
    body(S, ctx, part)                drives the REAL code; S hands out inputs; raises Violation

`S` is an input source.  Under exploration it creates CrossHair proxies whose bounds are asserted
directly into the solver; under replay it returns the concrete values of a counterexample, so the very
same body runs on plain Python.
"""
import gc
import os
import sys
import time
import traceback
import weakref
from fractions import Fraction

REPO = os.environ.get("VERIF_REPO", "/repo")
if sys.path[0] != REPO:
    sys.path.insert(0, REPO)


class Violation(Exception):
    """An oracle failure. clause = which part of the property, site = function/feature blamed."""

    def __init__(self, clause, site, msg=""):
        super().__init__("%s @%s: %s" % (clause, site, msg))
        self.clause, self.site, self.msg = clause, site, msg


class Ignore(Exception):
    """Concrete-mode counterpart of an assume() that failed."""


# ----------------------------------------------------------------------------------------------------
# concrete input source (replay on plain Python; no CrossHair involved)
# ----------------------------------------------------------------------------------------------------
class ConcreteInputs:
    symbolic = False

    def __init__(self, values):
        self.values = dict(values)
        self.used = {}
        self.notes = {}

    def _get(self, name, default):
        v = self.values.get(name, default)
        self.used[name] = v
        return v

    def int(self, name, lo, hi):
        v = int(self._get(name, lo))
        if not lo <= v <= hi:
            raise Ignore(name)
        return v

    def real(self, name, lo, hi, lo_open=False, hi_open=False):
        v = self._get(name, lo)
        if isinstance(v, str):
            v = float(Fraction(v))
        v = float(v)
        if v < lo or v > hi or (lo_open and v == lo) or (hi_open and v == hi):
            raise Ignore(name)
        return v

    def concrete(self, value):
        return value

    def untraced(self):
        import contextlib
        return contextlib.nullcontext()

    def bool(self, name):
        return bool(self._get(name, False))

    def choice(self, name, n):
        return self.int(name, 0, n - 1)

    def bytes(self, name, n):
        v = self._get(name, [0] * n)
        b = bytes(v)
        if len(b) != n:
            raise Ignore(name)
        return b

    def assume(self, cond):
        if not cond:
            raise Ignore("assume")

    def note(self, key, value=True):
        self.notes[key] = value

    def now_symbolic(self, loop):
        pass

    def fresh_real(self, name, lo, hi):
        return self.real(name, lo, hi)


# ----------------------------------------------------------------------------------------------------
# CrossHair side (imported lazily so that a replay never loads it)
# ----------------------------------------------------------------------------------------------------
_CH = None
SOLVER_STATS = {"checks": 0, "time": 0.0}


def _load_crosshair():
    global _CH
    if _CH is not None:
        return _CH
    import z3
    import crosshair.core as cc
    import crosshair.core_and_libs  # noqa: F401  registers library patches
    from crosshair.core import Patched, proxy_for_type, realize, deep_realize
    from crosshair.statespace import (StateSpace, StateSpaceContext, RootNode, CallAnalysis,
                                      VerificationStatus, NotDeterministic, context_statespace)
    from crosshair.tracers import COMPOSITE_TRACER, NoTracing, ResumedTracing
    from crosshair.util import UnexploredPath, IgnoreAttempt, CrossHairInternal, ControlFlowException
    from crosshair.libimpl.builtinslib import (RealBasedSymbolicFloat, ModelingDirector, AnySymbolicStr,
                                               SymbolicInt, SymbolicBool)

    # (1) weakref deref patch runs gc.collect() per call: asyncio becomes 400x slower.
    cc._PATCH_REGISTRATIONS.pop(weakref.ref.__call__, None)

    # (2) solver accounting
    orig_check = z3.Solver.check

    def timed_check(self, *a):
        t = time.perf_counter()
        try:
            return orig_check(self, *a)
        finally:
            SOLVER_STATS["checks"] += 1
            SOLVER_STATS["time"] += time.perf_counter() - t
    z3.Solver.check = timed_check

    # (3) getattr/hasattr with the target's __getattr__/properties TRACED
    missing = object()

    def traced_getattr(obj, name, default=missing):
        with NoTracing():
            if isinstance(name, AnySymbolicStr):
                name = realize(name)
            tp = type(obj)
            getattribute = tp.__getattribute__
            fallback = None
            for k in tp.__mro__:
                if "__getattr__" in k.__dict__:
                    fallback = k.__dict__["__getattr__"]
                    break
        try:
            return getattribute(obj, name)
        except AttributeError:
            if fallback is not None:
                try:
                    return fallback(obj, name)
                except AttributeError:
                    if default is missing:
                        raise
                    return default
            if default is missing:
                raise
            return default

    def traced_hasattr(obj, name):
        try:
            traced_getattr(obj, name)
            return True
        except AttributeError:
            return False
    cc._PATCH_REGISTRATIONS[getattr] = traced_getattr
    cc._PATCH_REGISTRATIONS[hasattr] = traced_hasattr

    # (4) real-number proxies must be hashable without realisation (mpf keys dicts by deadlines)
    RealBasedSymbolicFloat.__hash__ = lambda self: 0x5EED

    # (5) CrossHair's control-flow exceptions are BaseException; asyncio swallows them in Handle._run
    from asyncio import events

    def handle_run(self):
        try:
            self._context.run(self._callback, *self._args)
        except (SystemExit, KeyboardInterrupt, ControlFlowException):
            raise
        except BaseException as exc:  # pylint: disable=broad-except
            cb = repr(self._callback)
            self._loop.call_exception_handler({'message': 'Exception in callback %s' % cb,
                                               'exception': exc, 'handle': self})
    events.Handle._run = handle_run

    class NS:
        pass
    ns = NS()
    for k, v in list(locals().items()):
        setattr(ns, k, v)
    _CH = ns
    return ns


class SymbolicInputs:
    symbolic = True

    def __init__(self, ch, space):
        self.ch, self.space = ch, space
        self.vars = []          # (name, proxy)
        self.notes = {}
        self._n = 0

    def _bound(self, proxy, lo, hi, lo_open=False, hi_open=False):
        z3 = self.ch.z3
        with self.ch.NoTracing():
            v = proxy.var
            if z3.is_int(v):
                self.space.add(z3.And(v >= lo, v <= hi))
            else:
                lo_q, hi_q = z3.RealVal(str(Fraction(str(lo)))), z3.RealVal(str(Fraction(str(hi))))
                self.space.add(z3.And(v > lo_q if lo_open else v >= lo_q, v < hi_q if hi_open else v <= hi_q))

    def int(self, name, lo, hi):
        with self.ch.NoTracing():
            if lo == hi:
                return lo
            p = self.ch.SymbolicInt(name)
            self._bound(p, lo, hi)
            self.vars.append((name, p))
            return p

    def real(self, name, lo, hi, lo_open=False, hi_open=False):
        with self.ch.NoTracing():
            p = self.ch.RealBasedSymbolicFloat(name, float)
            self._bound(p, lo, hi, lo_open, hi_open)
            self.vars.append((name, p))
            return p

    fresh_real = real

    def bool(self, name):
        with self.ch.NoTracing():
            p = self.ch.SymbolicBool(name)
            self.vars.append((name, p))
        return p

    def choice(self, name, n):
        """A concrete int in [0,n): the solver variable is forked on immediately (enumerated by paths)."""
        p = self.int(name, 0, n - 1)
        if isinstance(p, int):
            return p
        for i in range(n - 1):
            if p == i:
                return i
        return n - 1

    def bytes(self, name, n):
        """n fully symbolic bytes"""
        with self.ch.NoTracing():
            p = self.ch.proxy_for_type(bytes, name)
            self.vars.append((name, p))
        if len(p) != n:
            raise self.ch.IgnoreAttempt("len")
        return p

    def assume(self, cond):
        if not cond:
            raise self.ch.IgnoreAttempt("assume")

    def note(self, key, value=True):
        if isinstance(value, (bool, int, float, str)):      # proxies included (isinstance is patched): realise
            value = self.ch.deep_realize(value)
        self.notes[key] = value

    def concrete(self, value):
        """native Python value of a (possibly proxied) value: for C-level consumers such as bytearray.fromhex"""
        return self.ch.deep_realize(value)

    def untraced(self):
        """context manager: run a stretch whose inputs are all native values without CrossHair's interception
        (works around library models that break under tracing, e.g. bytearray.fromhex in crosshair 0.0.110)"""
        return self.ch.NoTracing()

    def now_symbolic(self, loop):
        """Turn the loop clock into a proxy so that every timestamp taken from now on is symbolic-typed."""
        with self.ch.NoTracing():
            loop._time = self.ch.RealBasedSymbolicFloat(self.ch.z3.RealVal(str(Fraction(str(float(loop._time))))))

    def realize_all(self):
        out = {}
        for name, p in self.vars:
            v = self.ch.deep_realize(p)
            if isinstance(v, float):
                # keep exact rational when available
                try:
                    with self.ch.NoTracing():
                        m = self.space.find_model_value(p.var)
                    if isinstance(m, float) or isinstance(m, int):
                        v = m
                except Exception:  # pylint: disable=broad-except
                    pass
            out[name] = v
        return out


def _jsonable(v):
    if isinstance(v, bool) or v is None or isinstance(v, (int, str)):
        return v
    if isinstance(v, float):
        return v
    if isinstance(v, Fraction):
        return float(v)
    if isinstance(v, (bytes, bytearray)):
        return list(v)
    if isinstance(v, (list, tuple)):
        return [_jsonable(x) for x in v]
    if isinstance(v, dict):
        return {str(k): _jsonable(x) for k, x in v.items()}
    return repr(v)


def run_concrete(harness, part, values):
    """Replay on plain Python. Returns None (holds), ("ignored", why) or ("violation", clause, site, msg)."""
    S = ConcreteInputs(values)
    ctx = harness.setup(part)
    try:
        harness.body(S, ctx, part)
    except Ignore as e:
        return ("ignored", str(e))
    except Violation as v:
        return ("violation", v.clause, v.site, v.msg)
    except Exception as e:  # pylint: disable=broad-except
        tb = traceback.extract_tb(e.__traceback__)
        site = next((f.name for f in reversed(tb) if "/mpf/" in f.filename), tb[-1].name if tb else "?")
        return ("violation", "crash:" + type(e).__name__, site, repr(e)[:300])
    finally:
        if hasattr(harness, "teardown"):
            try:
                harness.teardown(ctx)
            except Exception:  # pylint: disable=broad-except
                pass
    return None


def explore_partition(harness, part, budget_s, per_path_timeout=60.0, seed=0, max_paths=10**9,
                      known=None, max_violations=5):
    """Explore one partition. Returns a stats dict (JSON-able)."""
    ch = _load_crosshair()
    import random
    root = ch.RootNode()
    root._random = random.Random(seed)
    st = dict(part=part, paths=0, confirmed=0, nontrivial=0, unknown=0, ignored=0, refuted=0,
              exhausted=False, violations=[], unknown_info=[], samples=[], distinct_notes={},
              spurious=0, known_hits={})
    t0 = time.process_time()
    w0 = time.time()
    c0, s0 = SOLVER_STATS["checks"], SOLVER_STATS["time"]
    gc_was = gc.isenabled()
    seen_sigs = set()
    while st["paths"] < max_paths:
        if time.process_time() - t0 > budget_s or time.time() - w0 > budget_s * 1.15:
            break
        start = time.process_time()
        space = ch.StateSpace(execution_deadline=start + per_path_timeout,
                              model_check_timeout=per_path_timeout / 2, search_root=root)
        status = None
        viol = None
        S = None
        gc.disable()
        try:
            with ch.Patched(), ch.COMPOSITE_TRACER, ch.NoTracing(), ch.StateSpaceContext(space):
                ctx = None
                try:
                    space.extra(ch.ModelingDirector).global_representations[float] = ch.RealBasedSymbolicFloat
                    ctx = harness.setup(part)
                    S = SymbolicInputs(ch, space)
                    try:
                        with ch.ResumedTracing():
                            harness.body(S, ctx, part)
                        status = ch.VerificationStatus.CONFIRMED
                        if len(st["samples"]) < 3:
                            with ch.ResumedTracing():
                                space.detach_path()
                                st["samples"].append({"inputs": _jsonable(S.realize_all()), "notes": _jsonable(S.notes)})
                    except Violation as v:
                        with ch.ResumedTracing():
                            space.detach_path()
                            conc = S.realize_all()
                        viol = (v.clause, v.site, v.msg, conc)
                        status = ch.VerificationStatus.REFUTED
                    except ch.ControlFlowException:
                        raise
                    except Exception as e:  # pylint: disable=broad-except
                        # an exception escaping from the code under test is an oracle failure of its own
                        tb = traceback.extract_tb(e.__traceback__)
                        site = next((f.name for f in reversed(tb) if "/mpf/" in f.filename), tb[-1].name if tb else "?")
                        with ch.ResumedTracing():
                            space.detach_path()
                            conc = S.realize_all()
                        viol = ("crash:" + type(e).__name__, site, repr(e)[:300] + " | " +
                                " < ".join("%s:%d" % (f.name, f.lineno) for f in reversed(tb[-6:])), conc)
                        status = ch.VerificationStatus.REFUTED
                except ch.IgnoreAttempt:
                    status = None
                    st["ignored"] += 1
                except ch.UnexploredPath as e:
                    status = ch.VerificationStatus.UNKNOWN
                    st["unknown"] += 1
                    if len(st["unknown_info"]) < 5:
                        tb = traceback.extract_tb(e.__traceback__)
                        st["unknown_info"].append([type(e).__name__, str(e)[:120]] + [
                            "%s:%d:%s" % (f.filename.split('/')[-1], f.lineno, f.name)
                            for f in tb if 'crosshair' not in f.filename][-4:])
                except ch.CrossHairInternal as e:
                    status = ch.VerificationStatus.UNKNOWN
                    st["unknown"] += 1
                    if len(st["unknown_info"]) < 5:
                        st["unknown_info"].append(["CrossHairInternal", str(e)[:200]])
                finally:
                    if ctx is not None and hasattr(harness, "teardown"):
                        try:
                            harness.teardown(ctx)
                        except Exception:  # pylint: disable=broad-except
                            pass
                st["paths"] += 1
                if status == ch.VerificationStatus.CONFIRMED:
                    st["confirmed"] += 1
                    if S is not None and S.notes.get("nontrivial", False):
                        st["nontrivial"] += 1
                    if S is not None:
                        for k, val in S.notes.items():
                            if k != "nontrivial":
                                d = st["distinct_notes"].setdefault(k, {})
                                d[str(val)] = d.get(str(val), 0) + 1
                _, exhausted = space.bubble_status(ch.CallAnalysis(status))
        finally:
            if gc_was:
                gc.enable()
            if st["paths"] % 50 == 0:
                gc.collect()
        if viol is not None:
            st["refuted"] += 1
            clause, site, msg, conc = viol
            sig = (clause, site)
            # replay on plain Python (no tracing) before believing it
            rep = run_concrete(harness, part, conc)
            rec = dict(clause=clause, site=site, msg=msg, inputs=_jsonable(conc), part=part,
                       replay=_jsonable(rep))
            if rep is None or rep[0] != "violation":
                st["spurious"] += 1
                rec["spurious"] = True
                if len(st["violations"]) < 20:
                    st["violations"].append(rec)
            else:
                rec["clause"], rec["site"], rec["msg"] = rep[1], rep[2], rep[3]
                kf = known.match(rec) if known is not None else None
                if kf is not None:
                    st["known_hits"][kf] = st["known_hits"].get(kf, 0) + 1
                    if st["known_hits"][kf] >= 40 and st["confirmed"] == 0:
                        break           # the whole partition fails with the recorded finding: no point in enumerating it
                else:
                    if sig not in seen_sigs or len(st["violations"]) < 3:
                        st["violations"].append(rec)
                    seen_sigs.add(sig)
                    if sum(1 for r in st["violations"] if not r.get("spurious")) >= max_violations:
                        break
        if exhausted:
            st["exhausted"] = True
            break
    st["cpu_s"] = round(time.process_time() - t0, 2)
    st["wall_s"] = round(time.time() - w0, 2)
    st["solver_checks"] = SOLVER_STATS["checks"] - c0
    st["solver_s"] = round(SOLVER_STATS["time"] - s0, 2)
    return st
