import os
import sys

REPO = os.environ.get("VERIF_REPO", "/repo")
sys.path.insert(0, REPO)
sys.setrecursionlimit(10000)


def main():
    args = sys.argv[1:]
    prop = args[0]
    tier = os.environ.get("VERIF_TIER", "quick")
    rp = None
    i = 1
    while i < len(args):
        if args[i] == "--tier":
            tier = args[i + 1]
            i += 2
        elif args[i] == "--replay":
            rp = args[i + 1]
            i += 2
        else:
            i += 1
    seed = int(os.environ.get("VERIF_SEED", "0"))
    from engine import runner
    if rp:
        sys.exit(runner.replay(prop, rp))
    sys.exit(runner.main(prop, tier, seed))


if __name__ == "__main__":
    main()
