"""Stub machine for unit harnesses, full-machine boot from /verif/machines, harness-process shims."""
import os
import sys
from collections import defaultdict

from engine import symloop

VERIF = os.path.dirname(os.path.dirname(os.path.abspath(__file__)))

_shimmed = False


def shims():
    """Harness-process-only adaptations (no repo change). DESIGN.md section 1.1."""
    global _shimmed
    if _shimmed:
        return
    _shimmed = True
    import logging
    logging.disable(logging.CRITICAL)
    from mpf.core.device_manager import DeviceCollection
    orig = DeviceCollection.__getattr__

    def ga(self, attr):
        if attr.startswith("__"):
            raise AttributeError(attr)
        return orig(self, attr)
    DeviceCollection.__getattr__ = ga
    # name-based hashes: iteration order of sets of devices must not depend on object addresses
    from mpf.core.device import Device
    Device.__hash__ = lambda self: hash((type(self).__name__, self.name))
    from mpf.core.mode import Mode
    Mode.__hash__ = lambda self: hash(("mode", self.name))
    symloop.install()
    # diagnostics only: formats the whole handler list into a log line (CrossHair cannot deep-copy it); empty body
    from mpf.core.events import EventManager
    EventManager._verify_handlers = lambda self, event, sorted_handlers: None
    # TestClock.get_datetime calls datetime.fromtimestamp (C): with a symbolic clock hand out a duck-typed instant
    from mpf.tests import loop as tl

    class _DT:
        def __init__(self, ts):
            self._ts = ts

        def timestamp(self):
            return self._ts
    orig_dt = tl.TestClock.get_datetime

    def get_datetime(self):
        try:
            return orig_dt(self)
        except TypeError:
            return _DT(self.get_time() + 100000)
    tl.TestClock.get_datetime = get_datetime


class _Clock:
    pass


class StubMachine:
    """What EventManager / DelayManager / SwitchController need from a machine."""

    def __init__(self, loop, production=True):
        from mpf.core.clock import ClockBase
        self.options = {"production": production}
        self.config = {"logging": {"console": defaultdict(lambda: "none"), "file": defaultdict(lambda: "none")}}
        self.is_shutting_down = False
        self.clock = ClockBase(None, loop)
        self.stop_reason = None

    def stop(self, reason=None, **kwargs):
        self.stop_reason = reason or "stop"


def boot(machine_name, config_file="config.yaml", fake_game=False, start_active=None):
    """Boot a TestMachineController on SymLoop from /verif/machines/<name>. Returns the test-case object."""
    shims()
    from mpf.tests.MpfTestCase import MpfTestCase
    from mpf.tests.MpfFakeGameTestCase import MpfFakeGameTestCase
    base = MpfFakeGameTestCase if fake_game else MpfTestCase
    path = os.path.join(VERIF, "machines", machine_name)

    class T(base):
        def get_config_file(self):
            return config_file

        def get_absolute_machine_path(self):
            return path

        def get_machine_path(self):
            return path

        def runTest(self):
            pass

        def get_platform(self):
            return "virtual"

    t = T("runTest")
    if start_active is not None:
        t.machine_config_patches = dict(getattr(t, "machine_config_patches", {}))
    t.setUp()
    # a device whose initialisation failed must not go unnoticed (seen: a second boot in one process swallowed a light config error)
    if getattr(t, "startup_error", None) or t.machine is None:
        raise AssertionError("machine %s did not boot: %r" % (machine_name, getattr(t, "startup_error", None)))
    for light in t.machine.lights.values():
        if not light.hw_drivers:
            raise AssertionError("light %s has no hardware drivers: its initialisation failed" % light.name)
    return t


def shutdown(t):
    """Light teardown: never run mpf's shutdown (it drives the loop); just drop everything."""
    import asyncio
    from asyncio import events
    loop = getattr(t, "loop", None)
    m = getattr(t, "machine", None)
    try:
        if m is not None:
            m.thread_stopper.set()
            m._test_clock = None
    except Exception:  # pylint: disable=broad-except
        pass
    if loop is not None:
        try:
            loop._ready.clear()
            loop._scheduled.clear()
            loop.set_exception_handler(lambda l, c: None)
            if not loop.is_closed():
                asyncio.base_events.BaseEventLoop.close(loop)
        except Exception:  # pylint: disable=broad-except
            pass
    try:
        t.restore_sys_path()
    except Exception:  # pylint: disable=broad-except
        pass
    events.set_event_loop(None)
    t.machine = None
