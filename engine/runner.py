"""Check runner: partitions -> 16 forked workers -> evidence, replay files, known findings, exit code.

Exit codes: 0 held on everything explored (incl. KNOWN-FINDING lines), 1 VIOLATION (replayed on plain
Python), 2 harness error (vacuous scenario / worker crash / setup failure), 3 spurious counterexample under
VERIF_STRICT=1.
"""
import hashlib
import importlib
import json
import multiprocessing as mp
import os
import sys
import time
import traceback

VERIF = os.path.dirname(os.path.dirname(os.path.abspath(__file__)))
REPO = os.environ.get("VERIF_REPO", "/repo")

HARNESS = {
    "C01": "harness.c01_events", "C02": "harness.c02_queue", "C03": "harness.c03_switch",
    "C04": "harness.c04_balls", "C05": "harness.c05_ballprogress", "C06": "harness.c06_game",
    "C07": "harness.c07_modes", "C08": "harness.c08_coils", "C09": "harness.c09_lights",
    "C10": "harness.c10_rules", "C11": "harness.c11_player", "C12": "harness.c12_config",
    "C13": "harness.c13_delays", "C14": "harness.c14_serial", "C15": "harness.c15_persist",
    "C16": "harness.c16_templates", "C17": "harness.c17_shows", "C18": "harness.c18_logic",
    "C19": "harness.c19_bcp", "C20": "harness.c20_credits",
}


class Scenario:
    """One symbolic scenario of a property."""

    def __init__(self, name, setup, body, partitions, teardown=None, per_path_timeout=60.0,
                 part_budget=60.0, min_nontrivial=1, doc=""):
        self.name, self.setup, self.body, self.teardown_fn = name, setup, body, teardown
        self.partitions = partitions
        self.per_path_timeout, self.part_budget = per_path_timeout, part_budget
        self.min_nontrivial = min_nontrivial
        self.doc = doc

    def teardown(self, ctx):
        if self.teardown_fn is not None:
            self.teardown_fn(ctx)


class Known:
    def __init__(self, prop):
        self.entries = []
        self.fixed = []
        p = os.path.join(VERIF, "known_findings.json")
        if os.path.exists(p):
            d = json.load(open(p))
            self.entries = [e for e in d.get("findings", []) if e["property"] == prop]
            self.fixed = [e for e in d.get("fixed", []) if ("property=%s " % prop) in e]

    def match(self, rec):
        for e in self.entries:
            if e.get("clause") not in (None, rec["clause"]):
                continue
            if e.get("site") not in (None, rec["site"]):
                continue
            if e.get("scenario") not in (None, rec.get("scenario")):
                continue
            expr = e.get("expr")
            if expr:
                try:
                    if not eval(expr, {"__builtins__": {"abs": abs, "len": len, "min": min, "max": max, "str": str,
                                                        "int": int, "float": float, "any": any, "all": all}},
                                {"i": rec["inputs"], "msg": rec["msg"], "part": rec.get("part")}):
                        continue
                except Exception:  # pylint: disable=broad-except
                    continue
            return e["id"]
        return None

    def what(self, kid):
        for e in self.entries:
            if e["id"] == kid:
                return e["what"]
        return kid


_G = {}


def _work(task):
    if task[0] == "custom":
        try:
            return dict(custom=_G["mod"].custom_checks(task[1], task[3], task[2]))
        except BaseException as e:  # pylint: disable=broad-except
            return dict(scenario="custom", part=None, crashed=True, error="".join(traceback.format_exception(type(e), e, e.__traceback__))[-3000:])
    sc_idx, part, deadline, seed, idx, total, nproc = task
    sc = _G["scenarios"][sc_idx]
    now = time.time()
    if now > deadline:
        return dict(scenario=sc.name, part=part, skipped=True)
    from engine import symdrv
    # fair share of what is left: (time left) x workers / (partitions not yet started), so that late partitions are not starved by
    # early ones; partitions that exhaust early hand their unused time on to the rest
    share = (deadline - now) * nproc / max(1, total - idx)
    budget = min(sc.part_budget, deadline - now, max(share, 3.0))
    try:
        st = symdrv.explore_partition(sc, part, budget, per_path_timeout=sc.per_path_timeout, seed=seed,
                                      known=_ScKnown(_G["known"], sc.name))
    except BaseException as e:  # pylint: disable=broad-except
        return dict(scenario=sc.name, part=part, crashed=True,
                    error="".join(traceback.format_exception(type(e), e, e.__traceback__))[-3000:])
    st["scenario"] = sc.name
    for v in st["violations"]:
        v["scenario"] = sc.name
    return st


class _ScKnown:
    def __init__(self, known, scname):
        self.known, self.scname = known, scname

    def match(self, rec):
        rec = dict(rec, scenario=self.scname)
        return self.known.match(rec)


def _hash_file(path):
    try:
        return hashlib.sha256(open(path, "rb").read()).hexdigest()[:16]
    except OSError:
        return None


def write_replay(prop, rec):
    d = os.path.join(VERIF, "replays", prop)
    os.makedirs(d, exist_ok=True)
    body = json.dumps(rec, sort_keys=True, default=repr)
    name = hashlib.sha1(body.encode()).hexdigest()[:12] + ".json"
    p = os.path.join(d, name)
    with open(p, "w") as f:
        f.write(body)
    return p


def replay(prop, path):
    mod = importlib.import_module(HARNESS[prop])
    rec = json.load(open(path))
    from engine import symdrv
    if rec.get("kind") == "custom":
        res = mod.replay_custom(rec)
    else:
        tier = rec.get("tier", "thorough")
        scs = {s.name: s for s in mod.scenarios(tier)}
        if rec["scenario"] not in scs:
            scs = {s.name: s for s in mod.scenarios("thorough")}
        res = symdrv.run_concrete(scs[rec["scenario"]], rec["part"], rec["inputs"])
    if res is not None and res[0] == "violation":
        print("reproduced: %s @%s: %s" % (res[1], res[2], res[3]))
        print("VIOLATION property=%s replay=%s" % (prop, path))
        return 1
    print("not reproduced (%r)" % (res,))
    return 0


def main(prop, tier, seed):
    t0 = time.time()
    mod = importlib.import_module(HARNESS[prop])
    known = Known(prop)
    scenarios = mod.scenarios(tier)
    budget = getattr(mod, "BUDGET", {}).get(tier, 100 if tier == "quick" else 600)
    budget = float(os.environ.get("VERIF_BUDGET", budget))
    deadline = t0 + budget
    _G["scenarios"], _G["known"], _G["mod"] = scenarios, known, mod
    tasks = []
    if hasattr(mod, "custom_checks"):
        tasks.append(("custom", tier, deadline, seed))
    nproc = int(os.environ.get("VERIF_JOBS", "16"))
    n_parts = sum(len(sc.partitions) for sc in scenarios)
    idx = 0
    for i, sc in enumerate(scenarios):
        for part in sc.partitions:
            tasks.append((i, part, deadline, seed, idx, n_parts, min(nproc, max(1, n_parts))))
            idx += 1
    results = []
    custom = []
    if tasks:
        # warm imports before forking
        from engine import symdrv
        symdrv._load_crosshair()
        if hasattr(mod, "warm"):
            mod.warm()
        ctx = mp.get_context("fork")
        with ctx.Pool(min(nproc, len(tasks)), maxtasksperchild=4) as pool:
            for r in pool.imap_unordered(_work, tasks, chunksize=1):
                if "custom" in r:
                    custom = r["custom"]
                else:
                    results.append(r)

    # ---- aggregate ------------------------------------------------------------------------------
    tot = dict(paths=0, confirmed=0, nontrivial=0, unknown=0, ignored=0, refuted=0, spurious=0,
               solver_checks=0, solver_s=0.0, cpu_s=0.0)
    per_scenario = {}
    violations, spurious, known_hits, crashed, skipped = [], [], {}, [], 0
    samples = []
    all_exhausted = True
    for r in results:
        sc = per_scenario.setdefault(r["scenario"], dict(partitions=0, exhausted=0, paths=0, confirmed=0,
                                                        nontrivial=0, unknown=0, skipped=0, notes={}))
        sc["partitions"] += 1
        if r.get("skipped"):
            sc["skipped"] += 1
            skipped += 1
            all_exhausted = False
            continue
        if r.get("crashed"):
            crashed.append(r)
            all_exhausted = False
            continue
        for k in tot:
            tot[k] += r.get(k, 0)
        for k in ("paths", "confirmed", "nontrivial", "unknown"):
            sc[k] += r[k]
        for k, d in r["distinct_notes"].items():
            dd = sc["notes"].setdefault(k, {})
            for val, n in d.items():
                dd[val] = dd.get(val, 0) + n
        if r["exhausted"] and not r["unknown"] and not r["spurious"]:
            sc["exhausted"] += 1
        else:
            all_exhausted = False
            sc.setdefault("not_exhausted", []).append(dict(part=r["part"], paths=r["paths"], unknown=r["unknown"],
                                                           cpu_s=r["cpu_s"], unknown_info=r["unknown_info"][:2]))
        for v in r["violations"]:
            (spurious if v.get("spurious") else violations).append(v)
        for k, n in r["known_hits"].items():
            known_hits[k] = known_hits.get(k, 0) + n
        if len(samples) < 6:
            for s in r["samples"][:1]:
                samples.append(dict(scenario=r["scenario"], part=r["part"], **s))
    custom_viol = []
    for c in custom:
        tot["solver_checks"] += c.get("queries", 0)
        tot["solver_s"] += c.get("solver_s", 0.0)
        if not c.get("conclusive", True):
            all_exhausted = False
        for v in c.get("violations", []):
            kid = known.match(v)
            if kid:
                known_hits[kid] = known_hits.get(kid, 0) + 1
            else:
                custom_viol.append(v)
        for s in c.get("samples", [])[:2]:
            samples.append(dict(scenario=c["name"], **s))

    rc = 0
    lines = []
    for kid, n in sorted(known_hits.items()):
        lines.append("KNOWN-FINDING: property=%s %s (%d path(s))" % (prop, known.what(kid), n))
    seen = set()
    for v in violations + custom_viol:
        sig = (v.get("scenario"), v["clause"], v["site"])
        if sig in seen:
            continue
        seen.add(sig)
        v["property"], v["tier"] = prop, tier
        p = write_replay(prop, v)
        lines.append("  violated clause %s at %s [%s]: %s\n  inputs=%s part=%s" % (
            v["clause"], v["site"], v.get("scenario"), v["msg"][:400], json.dumps(v["inputs"])[:600], json.dumps(v.get("part"))[:300]))
        lines.append("VIOLATION property=%s replay=%s" % (prop, os.path.relpath(p, VERIF)))
        rc = 1
    vac = []
    for sc in scenarios:
        ps = per_scenario.get(sc.name)
        if ps and ps["partitions"] > ps["skipped"] and ps["nontrivial"] < sc.min_nontrivial and rc == 0 and not known_hits:
            vac.append(sc.name)
    if rc == 0 and (crashed or vac):
        rc = 2
        for c in crashed[:3]:
            lines.append("HARNESS-ERROR worker crashed in %s %s:\n%s" % (c["scenario"], c["part"], c["error"]))
        for n in vac:
            lines.append("HARNESS-ERROR scenario %s is vacuous (no non-trivial confirmed path)" % n)
    if spurious:
        lines.append("INCONCLUSIVE: %d counterexample(s) did not reproduce on plain Python (encoding/stub issue), e.g. %s" % (
            len(spurious), json.dumps(spurious[0], default=repr)[:600]))
        if rc == 0 and os.environ.get("VERIF_STRICT") == "1":
            rc = 3

    wall = time.time() - t0
    anchors = getattr(mod, "ANCHORS", [])
    n_custom_eval = sum(c.get("evaluations", 0) for c in custom)
    n_custom_nontriv = sum(c.get("nontrivial", 0) for c in custom)
    evidence = {
        "property_id": prop, "tier": tier, "seed": seed, "level": "other",
        "coverage": {
            "explanation": getattr(mod, "EXPLANATION", "") + " | verdict rule: a partition counts as decided for all "
            "values inside its bounds only when its CrossHair path tree was exhausted with zero UNKNOWN leaves; "
            "this run: %s." % ("every partition exhausted" if all_exhausted else "NOT every partition exhausted (bounded counterexample search for the rest)"),
            "exhaustive": bool(all_exhausted),
            "evaluations": tot["paths"] + n_custom_eval,
            "distinct_nontrivial": tot["nontrivial"] + n_custom_nontriv,
            "rule": "one evaluation = one explored path (distinct branch-decision sequence, standing for all input values "
                    "that take it) or one SMT query of a direct encoding; non-trivial = the path reached the final oracle "
                    "with the harness' stated activity (" + getattr(mod, "NONTRIVIAL_RULE", "scenario-specific note") + ")",
            "samples": samples[:8] if samples else [{"note": "no confirmed path sampled"}],
            "functions_encoded": getattr(mod, "FUNCTIONS", []),
            "anchored_source_sha256_16": {a: _hash_file(os.path.join(REPO, a)) for a in anchors},
            "bounds": getattr(mod, "BOUNDS", {}).get(tier, getattr(mod, "BOUNDS", {})),
            "partitions": len(tasks), "partitions_skipped_budget": skipped,
            "per_scenario": per_scenario,
            "paths_confirmed": tot["confirmed"], "paths_unknown": tot["unknown"],
            "paths_assume_failed": tot["ignored"], "paths_refuted": tot["refuted"],
            "spurious_counterexamples": len(spurious),
            "solver_queries": tot["solver_checks"], "solver_s": round(tot["solver_s"], 2), "cpu_s": round(tot["cpu_s"], 1),
            "known_findings_hit": known_hits, "fixed_entries": known.fixed,
            "custom_checks": [{k: v for k, v in c.items() if k not in ("violations",)} for c in custom],
            "worker_crashes": len(crashed),
        },
        "assumptions": getattr(mod, "ASSUMPTIONS", []) + [
            "floats are modelled as exact reals (IEEE rounding outside the claim)",
            "CPython 3.12, CrossHair 0.0.110 proxy semantics (weakref patch removed, traced getattr/hasattr, constant hash for real proxies), z3",
        ],
        "wall_s": round(wall, 2),
        "violations": len(seen),
    }
    os.makedirs(os.path.join(VERIF, "evidence"), exist_ok=True)
    with open(os.path.join(VERIF, "evidence", prop + ".json"), "w") as f:
        json.dump(evidence, f, indent=1, default=repr)
    for ln in lines:
        print(ln)
    print("%s %s: %d paths (%d confirmed, %d non-trivial, %d unknown, %d assume-failed) in %d partitions (%d skipped), "
          "custom checks %d, solver %d queries %.1fs, exhaustive=%s, wall %.1fs, exit %d" % (
              prop, tier, tot["paths"], tot["confirmed"], tot["nontrivial"], tot["unknown"], tot["ignored"], len(tasks), skipped,
              len(custom), tot["solver_checks"], tot["solver_s"], all_exhausted, wall, rc))
    return rc
