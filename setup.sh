#!/bin/sh
# Build /verif/.venv: overlay on /venv (repo deps) + crosshair-tool/z3-solver from the offline wheelhouse.
set -e
cd "$(dirname "$0")"
if [ -x .venv/bin/python ] && .venv/bin/python -c "import crosshair, z3, ruamel.yaml" 2>/dev/null; then
    exit 0
fi
rm -rf .venv
/venv/bin/python -m venv .venv
SP=$(.venv/bin/python -c "import sysconfig; print(sysconfig.get_paths()['purelib'])")
printf '%s\n' "import site; site.addsitedir('/venv/lib/python3.12/site-packages')" > "$SP/zz_venv_overlay.pth"
PIP_NO_INDEX=1 .venv/bin/pip install -q --no-index --find-links /opt/veriftools/wheels crosshair-tool z3-solver >/dev/null
.venv/bin/python -c "import crosshair, z3, ruamel.yaml; print('verif venv ready: crosshair', crosshair.__version__ if hasattr(crosshair,'__version__') else '', 'z3', z3.get_version_string())"
