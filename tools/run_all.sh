#!/bin/sh
# usage: tools/run_all.sh <tier> [budget-seconds]  -- runs every registered check once, prints one summary line each
TIER=${1:-quick}
[ -n "$2" ] && export VERIF_BUDGET=$2
cd "$(dirname "$0")/.."
for p in C01 C02 C03 C04 C05 C06 C07 C08 C09 C10 C11 C12 C13 C14 C15 C16 C17 C18 C19 C20; do
  START=$(date +%s)
  ./check $p --tier $TIER > /tmp/runall_$p.log 2>&1; RC=$?
  END=$(date +%s)
  echo "== $p tier=$TIER exit=$RC wall=$((END-START))s :: $(tail -1 /tmp/runall_$p.log | cut -c1-260)"
  grep -E "VIOLATION|HARNESS-ERROR|INCONCLUSIVE|Traceback" /tmp/runall_$p.log | cut -c1-300 | head -5
done
