#!/usr/bin/env python3
"""usage: keep_seed.py <seed-id> <property> <src-dir> <n> <needs> <ran> <detected-by>"""
import json, os, shutil, sys
sid, prop, src, n, needs, ran, det = sys.argv[1:8]
d = os.path.join(os.path.dirname(os.path.dirname(os.path.abspath(__file__))), "seeded", sid)
os.makedirs(d, exist_ok=True)
shutil.copy(os.path.join(src, "patch%s.diff" % n), os.path.join(d, "patch.diff"))
shutil.copy(os.path.join(src, "demo%s.py" % n), os.path.join(d, "demo.py"))
notes = os.path.join(src, "notes%s.md" % n)
if os.path.exists(notes):
    shutil.copy(notes, os.path.join(d, "notes.md"))
json.dump({"seed": sid, "property": prop, "origin": "independent sub-agent given only the property text and a scratch worktree",
           "needs_to_manifest": needs, "confirmed_by_me": ran, "detected_by": det}, open(os.path.join(d, "meta.json"), "w"), indent=1)
print("kept", d)
