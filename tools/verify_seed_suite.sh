#!/bin/sh
# usage: tools/verify_seed_suite.sh <name> <patch.diff>   -> /tmp/seedsuite_<name>.log ; scratch worktree removed afterwards
N=$1; PATCH=$2; W=/tmp/vw_$N
git -C /repo worktree add -q --detach $W HEAD || exit 9
cp -r /repo/mpf.egg-info $W/ 2>/dev/null
( cd $W && git apply "$PATCH" ) || { echo "patch does not apply" > /tmp/seedsuite_$N.log; git -C /repo worktree remove --force $W; exit 9; }
/verif/tools/suite_check.sh $W > /tmp/seedsuite_$N.log 2>&1
echo "exit $?" >> /tmp/seedsuite_$N.log
git -C /repo worktree remove --force $W
