#!/bin/sh
# usage: regress.sh C20 C16 ...  -- every stored seed of these properties must still be reported
# needs a scratch worktree of /repo at $DEVREPO (git -C /repo worktree add --detach $DEVREPO HEAD; cp -r /repo/mpf.egg-info $DEVREPO/); remove it afterwards
cd /verif
for P in "$@"; do for d in seeded/$P-*; do
  cd ${DEVREPO:-/tmp/verif_devrepo} && git checkout -q -- . && git apply /verif/$d/patch.diff 2>/dev/null || { echo "$d: patch does not apply"; cd /verif; continue; }
  cd /verif && VERIF_REPO=${DEVREPO:-/tmp/verif_devrepo} timeout 1500 ./check $P > /tmp/verif_regress_one.log 2>&1; RC=$?
  echo "$d: exit $RC $(grep -c '^VIOLATION' /tmp/verif_regress_one.log) violation line(s)"
  git -C ${DEVREPO:-/tmp/verif_devrepo} checkout -q -- .
done; done
git -C /verif checkout -- evidence
