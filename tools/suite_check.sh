#!/bin/sh
# usage: tools/suite_check.sh [repo-dir]  -- runs the pinned suite and compares with BASELINE stable_pass
R=${1:-/repo}
cd "$R" && /venv/bin/python -m pytest -q -p no:cacheprovider --timeout=900 --continue-on-collection-errors -q --junitxml=/tmp/junit_$$.xml >/dev/null 2>&1
python3 - /tmp/junit_$$.xml <<'PY'
import json, sys, xml.etree.ElementTree as ET
b=json.load(open('/root/.vp/BASELINE.json')); stable=set(b['stable_pass'])
passed=set()
for tc in ET.parse(sys.argv[1]).iter('testcase'):
    if not [c for c in tc if c.tag in('failure','error','skipped')]:
        passed.add("%s::%s"%(tc.get('classname'), tc.get('name')))
missing=sorted(stable-passed)
print("stable_pass=%d passed_now=%d missing=%d" % (len(stable), len(passed), len(missing)))
for m in missing[:20]: print("  NOT PASSING:", m)
sys.exit(1 if missing else 0)
PY
rc=$?; rm -f /tmp/junit_$$.xml; exit $rc
