#!/usr/bin/env python3
"""Regenerate MANIFEST.json from tools/checks.json (single source of per-check texts)."""
import json, os
HERE = os.path.dirname(os.path.dirname(os.path.abspath(__file__)))
spec = json.load(open(os.path.join(HERE, "tools", "checks.json")))
checks = []
for pid in sorted(spec["checks"]):
    c = spec["checks"][pid]
    checks.append({
        "property_id": pid,
        "quick_cmd": "./check %s --tier quick" % pid,
        "thorough_cmd": "./check %s --tier thorough" % pid,
        "evidence_file": "evidence/%s.json" % pid,
        "replay_cmd_template": "./check %s --replay {path}" % pid,
        "engine": c.get("engine", "E1"),
        "level_claimed": {"category": "other", "text": c["text"], "design_ref": c.get("design_ref", "DESIGN.md section 2/" + pid)},
        "level_note": c["note"],
        "technique": c["technique"],
    })
claimed = set(spec["checks"])
na = [{"property_id": p, "reason": r} for p, r in sorted(spec["not_applicable"].items()) if p not in claimed]
m = {
    "version": 1,
    "setup_cmd": "./setup.sh",
    "hooks": {"guard": "MPF_VERIF", "enable": "no hooks are needed: all observation is done by wrapping objects from the harness process; MPF_VERIF is reserved",
              "baseline_off_cmd": "cd /repo && /venv/bin/python -m pytest -ra -q -p no:cacheprovider --timeout=900 --continue-on-collection-errors",
              "source_commits": [], "add_only": True},
    "engines": [
        {"name": "E1", "path": "engine/symdrv.py", "serves_properties": sorted(p for p in claimed if "E1" in spec["checks"][p].get("engine", "E1")),
         "kind_free_text": "path exploration of the real Python code with CrossHair 0.0.110 proxies driven through its library API; z3 decides branch feasibility; inputs/timings/configs are solver variables; counterexamples replayed on plain Python"},
        {"name": "E2", "path": "engine/astsmt.py", "serves_properties": sorted(p for p in claimed if "E2" in spec["checks"][p].get("engine", "")),
         "kind_free_text": "Python AST -> z3 bit-vector translation of leaf kernels re-read from /repo on every run, unsat = holds within the bound, sat models replayed on the real function"},
    ],
    "checks": checks,
    "notes": spec.get("notes", ""),
    "not_applicable": na,
}
json.dump(m, open(os.path.join(HERE, "MANIFEST.json"), "w"), indent=1)
print("MANIFEST.json:", len(checks), "checks,", len(na), "not applicable")
