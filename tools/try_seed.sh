#!/bin/sh
# usage: tools/try_seed.sh <PROP> <patch.diff> <demo.py> [tier]
# applies the patch to /repo, runs the demo (must fail) and the check (should report VIOLATION), always reverts.
P=$1; PATCH=$2; DEMO=$3; TIER=${4:-quick}
cd /repo || exit 9
if [ -n "$(git status --porcelain)" ]; then echo "repo not clean"; exit 9; fi
if [ -n "$DEMO" ]; then /venv/bin/python "$DEMO" >/tmp/demo_clean.log 2>&1; echo "demo on clean tree: exit $?"; fi
git apply "$PATCH" || { echo "patch does not apply"; exit 9; }
if [ -n "$DEMO" ]; then /venv/bin/python "$DEMO" >/tmp/demo_patched.log 2>&1; echo "demo on patched tree: exit $?"; tail -2 /tmp/demo_patched.log; fi
cd /verif && ./check $P --tier $TIER > /tmp/seed_check.log 2>&1; RC=$?
echo "check exit $RC"; grep -E "VIOLATION|violated clause|KNOWN|HARNESS|INCONCL" /tmp/seed_check.log | cut -c1-400 | head -8; tail -1 /tmp/seed_check.log | cut -c1-300
git -C /repo checkout -- . ; git -C /repo status --porcelain | head -3
git -C /verif checkout -- evidence 2>/dev/null
exit $RC
