"""A mode with custom code that registers handlers, switch handlers and delays on behalf of the mode."""
from mpf.core.mode import Mode


class Mcode(Mode):

    def mode_start(self, **kwargs):
        self.fired = []
        self.add_mode_event_handler("mcode_event", self._on_event)
        self.add_mode_event_handler("mcode_other", self._on_event, priority=5)
        self.switch_handlers.append(self.machine.switch_controller.add_switch_handler("s_a", self._on_switch))
        self.switch_handlers.append(self.machine.switch_controller.add_switch_handler("s_b", self._on_switch, ms=500))
        self.delay.add(3000, self._on_delay, "mcode_delay")
        self.delay.add(800, self._on_delay)

    def _on_event(self, **kwargs):
        self.fired.append("event")

    def _on_switch(self):
        self.fired.append("switch")

    def _on_delay(self):
        self.fired.append("delay")
